#!/venv/bin/python
"""Entry point:  check.py <ID> [--tier quick|thorough]   |   check.py --replay <file>

exit 0: property held on everything explored (KNOWN-FINDING lines allowed)
exit 1: at least one `VIOLATION property=<ID> replay=<path>` line
exit 2: harness error (never a verdict)
"""
import argparse
import importlib
import json
import os
import sys
import traceback
import warnings

warnings.simplefilter("ignore")

HERE = os.path.dirname(os.path.abspath(__file__))
sys.path.insert(0, HERE)
if os.environ.get("PYTHONHASHSEED") is None:
    # the checker itself must be deterministic; the library's hash-seed dependence is C06's subject
    os.environ["PYTHONHASHSEED"] = "0"
    os.execv(sys.executable, [sys.executable] + sys.argv)


# Longest wall time a tier is given before the run is declared non-terminating. The budgets inside the checks stop the ENUMERATION
# (and report a cap); this limit is for the code under test itself: an explored input on which it loops or whose output grows without
# bound (quick tiers take 2-350 s on this machine, the slowest thorough tier 2400 s).
HARD_LIMIT_S = {"quick": 1200, "thorough": 4 * 3600}


def _arm_watchdog(prop, tier):
    import signal

    def on_alarm(signum, frame):
        limit = int(os.environ.get("VERIF_HARD_LIMIT_S") or HARD_LIMIT_S[tier])
        d = os.path.join(os.environ.get("VERIF_REPLAY_DIR") or os.path.join(HERE, "replays"), prop)
        os.makedirs(d, exist_ok=True)
        path = os.path.join(d, "non_termination.json")
        with open(path, "w") as f:
            json.dump({"property": prop, "tier": tier, "violation": {"clause": "exploration_does_not_terminate", "site": "watchdog", "shape": [],
                       "detail": f"the {tier} tier did not finish within {limit} s: the code under test loops or blows up on an explored input"}}, f, indent=1)
        print(f"VIOLATION property={prop} replay={path}")
        print(f"  clause=exploration_does_not_terminate: the {tier} tier did not finish within {limit} s (the code under test loops or its "
              f"output grows without bound on an explored input)")
        sys.stdout.flush()
        try:
            import multiprocessing
            for ch in multiprocessing.active_children():
                ch.terminate()
        except Exception:
            pass
        os._exit(1)
    signal.signal(signal.SIGALRM, on_alarm)
    signal.alarm(int(os.environ.get("VERIF_HARD_LIMIT_S") or HARD_LIMIT_S[tier]))


def main():
    ap = argparse.ArgumentParser()
    ap.add_argument("prop", nargs="?")
    ap.add_argument("--tier", default=os.environ.get("VERIF_TIER", "quick"), choices=["quick", "thorough"])
    ap.add_argument("--replay")
    args = ap.parse_args()
    seed = int(os.environ.get("VERIF_SEED", "0") or 0)
    try:
        if args.replay:
            with open(args.replay) as f:
                art = json.load(f)
            prop = art["property"]
            mod = importlib.import_module(f"props.{prop.lower()}")
            res = mod.execute(art["case"])
            want = art.get("violation")
            got = res.get("viol", [])
            print(json.dumps({"case": art["case"], "violations": got, "show": res.get("show")}, indent=1, default=repr))
            hit = [v for v in got if want is None or (v["clause"], v["site"]) == (want["clause"], want["site"])]
            if hit:
                print(f"VIOLATION property={prop} replay={args.replay}")
                return 1
            print(f"[{prop}] replay: recorded violation does not occur on this tree")
            return 0
        prop = args.prop.upper()
        mod = importlib.import_module(f"props.{prop.lower()}")
        _arm_watchdog(prop, args.tier)
        return mod.run(args.tier, seed)
    except SystemExit:
        raise
    except BaseException:
        traceback.print_exc()
        print("HARNESS-ERROR (no verdict)")
        return 2


if __name__ == "__main__":
    sys.exit(main())
