#!/venv/bin/python
"""Entry point:  check.py <ID> [--tier quick|thorough]   |   check.py --replay <file>

exit 0: property held on everything explored (KNOWN-FINDING lines allowed)
exit 1: at least one `VIOLATION property=<ID> replay=<path>` line
exit 2: harness error (never a verdict)
"""
import argparse
import importlib
import json
import os
import sys
import traceback
import warnings

warnings.simplefilter("ignore")

HERE = os.path.dirname(os.path.abspath(__file__))
sys.path.insert(0, HERE)
if os.environ.get("PYTHONHASHSEED") is None:
    # the checker itself must be deterministic; the library's hash-seed dependence is C06's subject
    os.environ["PYTHONHASHSEED"] = "0"
    os.execv(sys.executable, [sys.executable] + sys.argv)


def main():
    ap = argparse.ArgumentParser()
    ap.add_argument("prop", nargs="?")
    ap.add_argument("--tier", default=os.environ.get("VERIF_TIER", "quick"), choices=["quick", "thorough"])
    ap.add_argument("--replay")
    args = ap.parse_args()
    seed = int(os.environ.get("VERIF_SEED", "0") or 0)
    try:
        if args.replay:
            with open(args.replay) as f:
                art = json.load(f)
            prop = art["property"]
            mod = importlib.import_module(f"props.{prop.lower()}")
            res = mod.execute(art["case"])
            want = art.get("violation")
            got = res.get("viol", [])
            print(json.dumps({"case": art["case"], "violations": got, "show": res.get("show")}, indent=1, default=repr))
            hit = [v for v in got if want is None or (v["clause"], v["site"]) == (want["clause"], want["site"])]
            if hit:
                print(f"VIOLATION property={prop} replay={args.replay}")
                return 1
            print(f"[{prop}] replay: recorded violation does not occur on this tree")
            return 0
        prop = args.prop.upper()
        mod = importlib.import_module(f"props.{prop.lower()}")
        return mod.run(args.tier, seed)
    except SystemExit:
        raise
    except BaseException:
        traceback.print_exc()
        print("HARNESS-ERROR (no verdict)")
        return 2


if __name__ == "__main__":
    sys.exit(main())
