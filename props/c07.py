"""C07 - sample order and repetition do not change what is inferred (DESIGN.md section 4, C07).

E1 history-tree explorer grouped by support set: for every set S of distinct samples (|S| <= k) all
sequences of length <= L whose set of distinct samples is exactly S are run through the real pipeline
and must give one canonical model graph (mc.ir.canon_graph: field order, union order, class names and
index strings removed, nothing else)."""
import itertools

from mc import alphabet as A
from mc import core, ir, pipeline

PROP = "C07"


def _symbols(tier):
    one = A.VALUE_NAMES + [A.ABSENT]
    two = [["2", a, b] for a in A.TWO_FIELD for b in A.TWO_FIELD if (a, b) != (A.ABSENT, A.ABSENT)]
    return one, two


GRAPH_OBJS = [
    ["P1", []], ["P2", []], ["P3", []],
    ["P1", [["c", "plain", ["P1", []]]]], ["P1", [["c", "plain", ["P2", []]]]], ["P3", [["c", "list", ["P1", []]]]],
    ["P3", [["c", "plain", ["P3", []]]]], ["P1", [["c", "list", ["P1", [["c", "plain", ["P2", []]]]]]]],
    ["P3", [["c", "plain", ["P1", []]], ["d", "plain", ["P2", []]]]], ["P4", [["c", "dict", ["P1", []]]]],
    ["P3", [["c", "plain", ["P4", []]], ["d", "list", ["P4", []]]]], ["P4", [["d", "plain", ["P1", []]]]],
]


def _cases(tier):
    one, two = _symbols(tier)
    if tier == "quick":
        L = 3
        pools = [(one + two, 3, "default")]
        gL, merges = 3, ("default", "exact", "percent_50")
    else:
        L = 4
        pools = [(one, 4, "default"), (one + two, 3, "exact"), (two, 4, "default")]
        gL, merges = 3, ("default", "exact", "percent_50")
    for pool, k, merge in pools:
        for n in range(1, k + 1):
            for S in itertools.combinations(range(len(pool)), n):
                yield {"set": [pool[i] for i in S], "L": L if pool is not None else L, "merge": merge}
    # two positions (a, b) holding similar objects that merge; their field f varies in kind and presence
    nv = []
    for key in ("a", "b"):
        for v in ([1], [1.5], "n/a", 1, 1.5, None, "<absent>"):
            o = {"p": 1, "q": 2, "r": 3, "s": 4}
            if v != "<absent>":
                o["f"] = v
            nv.append(["J", {key: o}])
    for merge in merges:
        for n in range(1, 5):
            for S in itertools.combinations(nv, n):
                if n >= 3 and len({list(x[1])[0] for x in S}) < 2:
                    continue
                # four distinct samples: all 24 orders (an Optional union at one position needs three of them)
                yield {"set": list(S), "L": max(3, n), "merge": merge}
    # one nested object with a fixed key set whose value kinds are permuted among the keys from sample to sample (and once inside a
    # list): an identity of nested objects that forgets WHICH key holds which type must not decide what survives
    kinds = [1, 1.5, "a", None, [1]]
    perm = [["J", {"pos": {"lat": x, "lon": y}}] for x in kinds for y in kinds] + \
           [["J", {"pos": [{"lat": x, "lon": y}]}] for x, y in ((1, 1.5), (1.5, 1), ("a", 1), (1, "a"))]
    for n in (1, 2, 3):
        for S in itertools.combinations(perm, n):
            if n == 3 and tier == "quick" and not all(isinstance(list(x[1]["pos"].values())[0] if isinstance(x[1]["pos"], dict) else 1, (int, float)) for x in S):
                continue
            yield {"set": list(S), "L": 3, "merge": "default"}
    # literal sets at the documented size limit (15 values): repeating a sample, or adding one that only repeats seen values, must not
    # change whether the position is a Literal
    pool = [f"v{i:02d}" for i in range(17)]
    for n in (14, 15, 16):
        whole = ["J", {"a": pool[:n]}]
        halves = [["J", {"a": pool[:n // 2 + 1]}], ["J", {"a": pool[n // 2:n]}]]
        again = ["J", {"a": [pool[0], pool[n - 1]]}]
        yield {"set": [whole], "L": 3, "merge": "default"}
        yield {"set": [whole, again], "L": 3, "merge": "default"}
        yield {"set": halves, "L": 3, "merge": "default"}
        yield {"set": halves + [again], "L": 4, "merge": "default"}
        yield {"set": [["J", {"a": v}] for v in pool[:n]][:3] + [["J", {"a": pool[3:n]}]], "L": 5, "merge": "default"}
    # the same limit through scalar observations: n records with n distinct values, one record given twice at every position
    # (a chosen family of sequences instead of all of them: the support is too large to enumerate)
    for n in (9, 10, 11, 14, 15, 16):
        recs = [["J", {"id": i, "status": pool[i]}] for i in range(n)]
        base = list(range(n))
        seqs = [base, base[::-1]]
        for rep in (0, n // 2, n - 1):
            for pos in (rep + 1, n // 2 + 1, n):
                q = list(base)
                q.insert(pos, rep)
                seqs += [q, q[::-1]]
        seqs.append(base + base)
        yield {"set": recs, "seqs": seqs, "L": 0, "merge": "default"}
    # long sample lists: the position of the one record that introduces a field must not matter (anything done per block of
    # samples shows at block boundaries: 64, 100, 128, 256)
    base, extra = ["J", {"id": 1, "name": "x"}], ["J", {"id": 2, "name": "y", "extra": True}]
    for n in (63, 64, 65, 99, 100, 101, 127, 128, 129, 200, 255, 256, 257):
        seqs = [[0] * n + [1], [1] + [0] * n, [0] * (n // 2) + [1] + [0] * (n - n // 2), [0] * (n - 1) + [1, 0]]
        yield {"set": [base, extra], "seqs": seqs, "L": 0, "merge": "default"}
    gs = [["G", g] for g in GRAPH_OBJS]
    for merge in merges:
        for n in range(1, gL + 1):
            for S in itertools.combinations(gs, n):
                yield {"set": list(S), "L": gL + (1 if tier != "quick" and n < 3 else 0), "merge": merge, "dkr": [r"k\d"]}


def _seqs(n, L):
    """all index sequences of length <= L over range(n) that use every index (support exactly n)"""
    for ln in range(n, L + 1):
        for seq in itertools.product(range(n), repeat=ln):
            if len(set(seq)) == n:
                yield seq


def _observe(samples, case):
    try:
        b = pipeline.build(samples, types=pipeline.ALL_TYPES, dkr=case.get("dkr"), merge=case.get("merge", "default"))
        return repr(ir.canon_graph([b.root]))
    except Exception as e:
        return "raises:" + core.exc_site(e)


def execute(case):
    S = case["set"]
    objs = [A.sample_from_symbol(s) for s in S]
    names = sorted(A.symbol_name(s) for s in S)
    outcomes = {}
    n_exec = 0
    import copy
    for seq in (case["seqs"] if "seqs" in case else _seqs(len(S), case["L"])):
        o = _observe([copy.deepcopy(objs[i]) for i in seq], case)
        n_exec += 1
        outcomes.setdefault(o, []).append(seq)
    viol = []
    if len(outcomes) > 1:
        items = sorted(outcomes.items(), key=lambda kv: (len(kv[1][0]), kv[1][0]))
        detail = " ;; ".join(f"order {list(v[0])} ({len(v)} seqs) -> {k[:200]}" for k, v in items[:3])
        kinds = "raises_vs_result" if any(k.startswith("raises:") for k in outcomes) else "different_graphs"
        shape = names
        if all(isinstance(s, str) or s[0] == "2" for s in S):
            shape = sorted({x for s in S for x in ([s] if isinstance(s, str) else [f"a={s[1]}", f"b={s[2]}"])})
        viol.append(core.viol("order_or_repetition_changes_result", kinds + ":" + case.get("merge", "default"), shape, detail))
    obs = [core.digest(k) for k in outcomes]
    return {"obs": obs, "viol": viol, "execs": n_exec, "trans": n_exec,
            "outcome": "one_graph" if len(outcomes) == 1 else "diverges",
            "show": next(iter(outcomes))[:200], "nontrivial": obs[0] if len(S) > 1 else None}


def run(tier, seed):
    r = core.Run(PROP, tier, seed)
    r.rule = ("E1 grouped by support set: every set of <=3 (quick) / <=4 (thorough) distinct samples from the object alphabet, "
              "all sequences of length <=3/<=4 with exactly that support, one canonical graph required per set; record sets at the literal limit with a repeated record at chosen positions; plus sets of "
              "graph-shaped objects x merge policies; non-trivial = support sets with >=2 distinct samples (distinct first outcome)")
    r.bounds = {"tier": tier}
    r.assumptions = ["canonical form ignores field order, union member order, class names and index strings only"]
    budget = 240 if tier == "quick" else 1800
    for case, res in core.pmap(execute, _cases(tier), chunksize=16, budget_s=budget):
        r.add(case, res)
    if core.pmap.capped:
        r.caps.append(f"wall budget {budget}s hit")
    return r.finish(replay_fn=execute)
