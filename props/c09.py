"""C09 - string pseudo-types are detected soundly and convert losslessly (DESIGN.md section 4, C09).

E1/E2: every string of a structured grammar x every registry configuration (all 64 subsets in
canonical order + every order of subsets of <=3 types) through the real `_detect_type`; every
argument subset through the real `resolve` / `generate`; every name through `remove_by_name`;
parse -> render -> parse for every accepted (string, type).  The parsers themselves are the
specification of "accepts" (accept matrix computed by calling each to_internal_value)."""
import itertools
import math

from mc import alphabet as A
from mc import core, ir, pipeline
from json_to_models.generator import MetadataGenerator

PROP = "C09"
T = pipeline.PSEUDO
NAMES = list(pipeline.ALL_TYPES)
ACTUAL = {"IntString": "int", "FloatString": "float", "BooleanString": "bool", "IsoDateString": "date",
          "IsoTimeString": "time", "IsoDatetimeString": "datetime"}


# ------------------------------------------------------------------------------------------------
# grammar
# ------------------------------------------------------------------------------------------------

def grammar(tier):
    out = []

    def add(cls, s):
        out.append((cls, s))
    signs = ["", "+", "-"]
    digs = {"ascii": ["0", "1", "12", "007"], "arabic": ["١", "١٢"], "super": ["²"], "fullwidth": ["１２"]}
    ws = [("", ""), (" ", ""), ("", " "), ("\t", "\n")]
    for sg in signs:
        for dk, dl in digs.items():
            for d in dl:
                for us in ("", "_3"):
                    for frac in ("", ".", ".5", ".5_0"):
                        for ex in ("", "e3", "E-2", "e+1_0"):
                            for l, r in ws:
                                add(f"num:{dk}", f"{l}{sg}{d}{us}{frac}{ex}{r}")
    for sg in signs:
        for w in ("nan", "NaN", "NAN", "inf", "Inf", "INF", "infinity", "Infinity", "iNf"):
            add("num:special", sg + w)
    for s in (".5", "5.", ".", "e3", "1e", "1e400", "-1e400", "1__2", "_1", "1_", "0x10", "0b1", "0o7", "1,5", "1 2", "١٫٥",
              "9" * 20, "-" + "9" * 20, "1" + "0" * 400, "9" * 5000):
        add("num:edge", s)
    for s in ("1.23456789012345", "123456789.123", "0.1", "0.30000000000000004", "1e-7", "1e16", "1e22", "1.5e300", "3.14159", "-0.0", "-0",
              "+0", "00", "1_000_000", "9007199254740993", "0.000001", "1E5", "123456789012345678", "2.5e-324", "1e-400"):
        add("num:long", s)
    for w in ("true", "false"):
        for m in range(1 << len(w)):
            s = "".join(ch.upper() if m >> i & 1 else ch for i, ch in enumerate(w))
            add("bool:case", s)
    for s in ("yes", "no", "1", "0", "t", "f", "True ", " true", "tru", "truee", "null", "none", "None", "on", "off"):
        add("bool:edge", s)
    # ISO fragments
    dates = ["2020", "2020-02", "2020-02-03", "20200203", "2020-W05-1", "2020-W05", "2020W051", "2020-034", "2020034",
             "2020-13-01", "2020-02-30", "2020-00-10", "0001-01-01", "9999-12-31", "10000-01-01", "20-02-03", "02/03/2020",
             "2020.02.03", "Feb 3 2020", "3 February 2020", "2020-2-3", "2020-02-03 ", " 2020-02-03"]
    times = ["12", "12:30", "12:30:45", "12:30:45.5", "12:30:45.123456", "12:30:45.1234567", "1230", "123045", "24:00",
             "24:00:00", "24:30", "12:60", "12:30:61", "12:30:60", "00:00", "T12:30", "12:30 PM", "12h30", "7:05", "12:30:45,5"]
    zones = ["", "Z", "+01:00", "-0530", "+01", " UTC", "+25:00", "+24:00", "-24:00", "+23:59", "-2359"]
    for d in dates:
        add("iso:date", d)
    for t in times:
        for z in zones:
            add("iso:time", t + z)
    for d in dates[:9] + ["2020-13-01", "2020-02-30"]:
        for sep in ("T", " ", "t", "_"):
            for t in times[:9] + ["24:00", "12:60"]:
                for z in zones[:4]:
                    add("iso:datetime", f"{d}{sep}{t}{z}")
    for s in ("", " ", "a", "b", "abc", "x" * 20, "2020-01-01T", "T", "-", "+", "--1", "1-1", "1:1", "1:1:1", "1.1.1", "1/1",
              "today", "now", "monday", "12 o'clock", "10 am", "noon", "1st", "3rd June", "June", "Sat", "01 02 03", "1 2 3 4",
              "١٢:٣٠", "2020-01-01T10:00:00.000000001", "2020-01-01T10:00:00+00:00:30", "\x00", "1\x00",
              "é", "日", "1日", "٣/٤"):
        add("other", s)
    seen, uniq = set(), []
    for cls, s in out:
        if s not in seen:
            seen.add(s)
            uniq.append((cls, s))
    return uniq


def reg_configs(tier):
    confs = []
    for n in range(0, 7):
        for c in itertools.combinations(NAMES, n):
            confs.append(list(c))
    for n in (2, 3):
        if tier == "quick" and n == 3:
            continue
        for c in itertools.combinations(NAMES, n):
            for p in itertools.permutations(c):
                if list(p) != list(c):
                    confs.append(list(p))
    return confs


# ------------------------------------------------------------------------------------------------
# workers
# ------------------------------------------------------------------------------------------------

def accept_row(s):
    """{type name: 'acc' | 'rej' | 'err:<ExcType>'} by calling each parser"""
    row = {}
    for n in NAMES:
        try:
            T[n].to_internal_value(s)
            row[n] = "acc"
        except ValueError:
            row[n] = "rej"
        except Exception as e:
            row[n] = "err:" + type(e).__name__
    return row


def _reference(n, s):
    """stdlib value of a canonical int / float / bool / ISO date / time / datetime spelling for the type that matches its form"""
    import datetime
    form = A.string_form("x", s)
    try:
        if n == "IntString" and form == "canon:int":
            return int(s)
        if n == "FloatString" and form in ("canon:int", "canon:float"):
            return float(s)
        if n == "BooleanString" and form == "canon:bool":
            return s.lower() == "true"
        if n == "IsoDateString" and form == "canon:date":
            return datetime.date.fromisoformat(s)
        if n == "IsoTimeString" and form == "canon:time":
            return datetime.time.fromisoformat(s)
        if n == "IsoDatetimeString" and form == "canon:datetime":
            return datetime.datetime.fromisoformat(s)
    except Exception:
        return None
    return None


def _denotes(v, ref):
    import datetime
    if isinstance(ref, (datetime.datetime, datetime.time)):
        return v == ref and v.utcoffset() == ref.utcoffset() and v.replace(tzinfo=None) == ref.replace(tzinfo=None)
    if isinstance(ref, bool):
        return bool(v) == ref
    return v == ref


def _eq(a, b):
    if isinstance(a, float) and isinstance(b, float) and math.isnan(a) and math.isnan(b):
        return True
    return a == b


_CACHE = {}


def _ctx(tier):
    """per-tier derived data (grammar, registry configurations, accept sets); computed lazily so that a
    replay of a slim case is self-sufficient, and inherited by forked workers when already computed"""
    c = _CACHE.get(tier)
    if c is None:
        G = grammar(tier)
        c = _CACHE[tier] = {"G": G, "confs": reg_configs(tier), "strings": [s for _, s in G], "acc_sets": None}
    return c


def _acc_sets(tier):
    c = _ctx(tier)
    if c["acc_sets"] is None:
        c["acc_sets"] = [(s, a) for s, a in ((s, [n for n, v in accept_row(s).items() if v == "acc"]) for s in c["strings"])
                         if a and len(s) < 60]
    return c["acc_sets"]


def _pairs(case):
    """detection of a string must not depend on its neighbours in a list / mapping, nor on when its type was registered:
    [s1, s2] in one list (both orders), {k1: s1, k2: s2} as a mapping, and the same strings as separate samples must infer one type"""
    s1, s2, conf = case["s1"], case["s2"], case["conf"]
    shape = [case["c1"], case["c2"]]
    viol = []

    def infer(samples, dkf=None, late=()):
        b = pipeline.build(samples, types=conf, dkf=dkf, late_types=late, do_merge=False, names=False)
        return repr(ir.canon(b.meta["a"]))
    try:
        ref = infer([{"a": [s1]}, {"a": [s2]}])
        variants = {
            "one_list": infer([{"a": [s1, s2]}]),
            "one_list_reversed": infer([{"a": [s2, s1]}]),
        }
        ref_map = infer([{"a": {"k1": s1}}, {"a": {"k1": s2}}], dkf=["a"])
        variants_map = {"one_mapping": infer([{"a": {"k1": s1, "k2": s2}}], dkf=["a"]),
                        "one_mapping_reversed": infer([{"a": {"k1": s2, "k2": s1}}], dkf=["a"])}
        # the same two strings as the field v of an object that sits in a list next to a null / a number, one object per sample:
        # the type of v must be what two plain samples of {"v": s} give (equality shortcuts between container types must look inside)
        def infer_v(samples):
            b = pipeline.build(samples, types=conf, do_merge=True, names=False)
            out = set()
            for m in b.reg.models:
                if "v" in m.type:
                    out.add(repr(ir.canon(m.type["v"])))
            return "|".join(sorted(out))
        ref_v = infer_v([{"v": s1}, {"v": s2}])
        for nm, other in (("object_in_list_with_null", None), ("object_in_list_with_number", 7)):
            got_v = infer_v([{"a": [{"v": s1}, other]}, {"a": [{"v": s2}, other]}])
            if got_v != ref_v:
                viol.append(core.viol("detection_depends_on_context", nm, shape, f"{s1!r},{s2!r}: {got_v} vs separate samples {ref_v} (conf {conf})"))
        late = tuple(t for t in conf if t in pipeline.DATETIME_TYPES) if tuple(conf[-3:]) == pipeline.DATETIME_TYPES else ()
        if late:
            variants["late_registration"] = infer([{"a": [s1]}, {"a": [s2]}], late=late)
            variants["late_registration_one_list"] = infer([{"a": [s1, s2]}], late=late)
    except Exception as e:
        return {"obs": ["exc"], "viol": [core.viol("pair_detection_raises", core.exc_site(e), shape, f"{s1!r},{s2!r} conf={conf}: {e}")],
                "outcome": "raises", "show": str(e)[:80]}
    for name, got in variants.items():
        if got != ref:
            viol.append(core.viol("detection_depends_on_context", name, shape, f"{s1!r}, {s2!r} conf={conf}: separate samples {ref} / {name} {got}"))
    for name, got in variants_map.items():
        if got != ref_map:
            viol.append(core.viol("detection_depends_on_context", name, shape, f"{s1!r}, {s2!r} conf={conf}: separate samples {ref_map} / {name} {got}"))
    return {"obs": [f"pair:{case['c1']}|{case['c2']}->{ref[:40]}"], "viol": viol, "execs": 7, "trans": 7, "outcome": "pair_same" if not viol else "pair_differs",
            "show": f"[{s1!r}, {s2!r}] under {conf}: {ref}", "nontrivial": core.digest([s1, s2, conf])}


def execute(case):
    kind = case["k"]
    if kind == "pairs":
        return _pairs(case)
    case = dict(case)
    tier = case.get("tier", "quick")
    if kind == "detect" and case.get("confs", "all") == "all":
        case["confs"] = _ctx(tier)["confs"]
    if kind == "resolve":
        case["acc_sets"] = _acc_sets(tier)
        case.setdefault("wit", WIT)
    if kind == "remove":
        case["strings"] = _ctx(tier)["strings"]
    if kind == "detect":
        return _detect(case)
    if kind == "resolve":
        return _resolve(case)
    if kind == "remove":
        return _remove(case)
    raise ValueError(kind)


def _detect(case):
    """one string x all registry configurations + round trips"""
    cls, s = case["cls"], case["s"]
    shape = [cls]
    viol, obs = [], []
    row = accept_row(s)
    n_exec = 0
    for n, r in row.items():
        if r.startswith("err:"):
            viol.append(core.viol("parser_raises_other_than_ValueError", f"{n}:{r[4:]}", shape,
                                  f"{n}.to_internal_value({s[:40]!r}) raised {r[4:]}: the string is neither accepted nor rejected"))
        if r == "acc":
            # (d) parse -> render -> parse
            try:
                v = T[n].to_internal_value(s)
                rep = v.to_representation()
                v2 = T[n].to_internal_value(rep)
                if not isinstance(rep, str) or not _eq(v, v2):
                    viol.append(core.viol("round_trip_changes_value", n, shape, f"{s[:40]!r} -> {v!r} -> {rep!r} -> {v2!r}"))
                # the parsed value is the value the string denotes: for canonical spellings the standard library is the reference
                ref = _reference(n, s)
                if ref is not None and not _denotes(v, ref):
                    viol.append(core.viol("parsed_value_differs_from_reference", n, shape, f"{s[:40]!r} parsed as {v!r}, denotes {ref!r}"))
            except Exception as e:
                viol.append(core.viol("round_trip_raises", f"{n}:{type(e).__name__}", shape, f"{s[:40]!r}: {type(e).__name__}: {e}"))
    for conf in case["confs"]:
        reg = pipeline.make_str_registry(conf)
        gen = MetadataGenerator(str_types_registry=reg)
        expected = next((n for n in conf if row[n] != "rej"), None)
        try:
            got = gen._detect_type(s)
            n_exec += 1
        except Exception as e:
            if expected is not None and row[expected].startswith("err:"):
                continue  # already reported as parser_raises_other_than_ValueError
            viol.append(core.viol("detection_raises", core.exc_site(e), shape, f"{s[:40]!r} conf={conf}: {e}"))
            continue
        gk = ir.kind(got)
        gname = got.__name__ if gk == "pseudo" else gk
        if gk == "pseudo":
            if row.get(gname) != "acc":
                viol.append(core.viol("detected_type_rejects_string", gname, shape, f"{s[:40]!r} conf={conf} row={row}"))
            elif expected != gname:
                viol.append(core.viol("registration_order_not_respected", gname, shape,
                                      f"{s[:40]!r} conf={conf}: detected {gname}, first accepting registered type is {expected}"))
            if gname not in conf:
                viol.append(core.viol("unregistered_type_detected", gname, shape, f"{s[:40]!r} conf={conf}"))
        else:
            if gk != "lit" or (not got.overflowed and got.literals != {s}):
                viol.append(core.viol("non_pseudo_detection_not_a_literal", gk, shape, f"{s[:40]!r} conf={conf} -> {got}"))
            if expected is not None and row[expected] == "acc":
                viol.append(core.viol("accepting_type_not_detected", expected, shape, f"{s[:40]!r} conf={conf} -> {gname}"))
        obs.append(f"{cls}|{gname}")
    accs = tuple(sorted(n for n, r in row.items() if r == "acc"))
    return {"obs": list(set(obs)), "viol": viol, "execs": n_exec, "trans": n_exec, "outcome": "acc:" + ",".join(a[:-6] for a in accs),
            "show": f"{s[:50]!r} accepted by {accs}", "nontrivial": s if len(accs) >= 1 else None, "row": (s, row)}


def _resolve(case):
    """one registry (registered subset) x one argument subset; witnesses carried by the case"""
    conf, args, wit = case["conf"], case["args"], case.get("wit", WIT)
    shape = ["args:" + "+".join(sorted(a[:-6] for a in args))]
    viol = []
    reg = pipeline.make_str_registry(conf)
    res = reg.resolve(*[T[a] for a in args])
    rnames = sorted(t.__name__ for t in res)
    if not set(rnames) <= set(conf):
        viol.append(core.viol("resolve_returns_unregistered", ",".join(rnames), shape, f"conf={conf} args={args}"))
    if len(rnames) == 1:
        t = rnames[0]
        bad = [s for s, accs in case["acc_sets"] if set(accs) & set(args) and t not in accs]
        if bad:
            viol.append(core.viol("resolved_type_does_not_cover_member", t, shape,
                                  f"resolve({args}) = {t} but it rejects {bad[:3]!r} accepted by a member"))
    # through generate(): one sample per member witness
    samples = [{"a": wit[a]} for a in args if wit.get(a) is not None]
    if len(samples) == len(args):
        gen = MetadataGenerator(str_types_registry=pipeline.make_str_registry(conf))
        detected = [ir.kind(gen._detect_type(s["a"])) == "pseudo" and gen._detect_type(s["a"]).__name__ for s in samples]
        if detected == list(args):
            meta = gen.generate(*samples)
            t = meta["a"]
            tk = ir.kind(t)
            tname = t.__name__ if tk == "pseudo" else tk
            for s in samples:
                if not ir.admits(t, s["a"]):
                    viol.append(core.viol("generated_type_rejects_member_witness", tname, shape, f"conf={conf} args={args} witness {s['a']!r}"))
            if len(rnames) > 1 and tk != "str":
                viol.append(core.viol("unresolvable_set_not_str", tname, shape, f"conf={conf} args={args} resolve={rnames} -> {tname}"))
            if tk == "pseudo" and tname not in conf:
                viol.append(core.viol("unregistered_type_in_output", tname, shape, f"conf={conf} args={args}"))
    return {"obs": [f"{','.join(a[:-6] for a in args)}->{','.join(r[:-6] for r in rnames)}"], "viol": viol,
            "outcome": "single" if len(rnames) == 1 else "multi", "show": f"resolve{tuple(args)} in {conf} = {rnames}",
            "nontrivial": core.digest([conf, args]) if len(args) > 1 else None}


def _remove(case):
    """remove_by_name(name) on the full registry, then detection over all strings + resolve"""
    name = case["name"]
    reg = pipeline.make_str_registry(NAMES)
    reg.remove_by_name(name)
    victim = next(n for n in NAMES if n == name or ACTUAL[n] == name)
    shape = ["remove:" + name]
    viol = []
    left = [t.__name__ for t in reg]
    if victim in left:
        viol.append(core.viol("disabled_type_still_registered", victim, shape, f"after remove_by_name({name!r}): {left}"))
    if sorted(left) != sorted(n for n in NAMES if n != victim):
        viol.append(core.viol("remove_by_name_removed_other_types", victim, shape, f"left={left}"))
    gen = MetadataGenerator(str_types_registry=reg)
    n = 0
    for s in case["strings"]:
        try:
            got = gen._detect_type(s)
        except Exception:
            continue
        n += 1
        if ir.kind(got) == "pseudo" and got.__name__ == victim:
            viol.append(core.viol("disabled_type_in_output", victim, shape, f"{s[:40]!r}"))
            break
    for k in (1, 2, 3):
        for args in itertools.combinations(left, k):
            res = reg.resolve(*[T[a] for a in args])
            if any(t.__name__ == victim for t in res):
                viol.append(core.viol("disabled_type_in_output", victim, shape, f"resolve{args}"))
    return {"obs": ["rm:" + name], "viol": viol, "execs": n, "trans": n, "outcome": "removed", "show": f"{name}: left {left}",
            "nontrivial": "rm:" + name}


WIT = {"IntString": "1", "FloatString": "1.5", "BooleanString": "true", "IsoDateString": "2020-02-03",
       "IsoTimeString": "12:30", "IsoDatetimeString": "2020-02-03T12:30:45"}


def run(tier, seed):
    r = core.Run(PROP, tier, seed)
    ctx = _ctx(tier)
    G, confs = ctx["G"], ctx["confs"]
    r.rule = (f"{len(G)} grammar strings x {len(confs)} registry configurations through _detect_type; all argument subsets x registered "
              "subsets through resolve/generate; 12 names through remove_by_name; round trip for every accepted (string, type); "
              "non-trivial = strings accepted by at least one parser / resolve calls with >=2 arguments")
    r.bounds = {"tier": tier, "strings": len(G), "registry_configs": len(confs)}
    r.assumptions = ["each type's own to_internal_value is the specification of 'accepts' (ValueError = reject)"]
    rows = {}
    cases = [{"k": "detect", "cls": cls, "s": s, "confs": "all", "tier": tier} for cls, s in G]
    for case, res in core.pmap(execute, cases, chunksize=8):
        s, row = res.pop("row")
        rows[s] = row
        r.add(case, res)
    ctx["acc_sets"] = [(s, a) for s, a in ((s, [n for n, v in row.items() if v == "acc"]) for s, row in rows.items())
                       if a and len(s) < 60]
    rcases = []
    subsets = [list(c) for n in range(1, 7) for c in itertools.combinations(NAMES, n)]
    for conf in subsets:
        if tier == "quick" and len(conf) not in (3, 6) and conf != list(pipeline.DEFAULT_TYPES):
            continue
        for k in range(1, len(conf) + 1):
            for args in itertools.combinations(conf, k):
                rcases.append({"k": "resolve", "conf": conf, "args": list(args), "tier": tier})
    for case, res in core.pmap(execute, rcases, chunksize=16):
        r.add(case, res)
    # context independence: one representative string per accept signature, all ordered pairs, two registries
    reps = {}
    for s0, accs in ctx["acc_sets"]:
        sig = ",".join(accs)
        if sig not in reps and len(s0) < 30:
            reps[sig] = s0
    reps["<none>"] = "plain text"
    reps["<long>"] = "y" * 25
    items = sorted(reps.items())
    pcases = [{"k": "pairs", "s1": a, "s2": b, "c1": "sig:" + ca, "c2": "sig:" + cb, "conf": list(conf)}
              for (ca, a), (cb, b) in itertools.permutations(items, 2)
              for conf in (pipeline.ALL_TYPES, pipeline.DEFAULT_TYPES)]
    for case, res in core.pmap(execute, pcases, chunksize=8):
        r.add(case, res)
    mcases = [{"k": "remove", "name": n, "tier": tier} for n in NAMES + list(ACTUAL.values())]
    for case, res in core.pmap(execute, mcases, chunksize=1):
        r.add(case, res)

    def replay(case):
        res = execute(case)
        res.pop("row", None)
        return res
    return r.finish(replay_fn=replay)
