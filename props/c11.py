"""C11 - JSON keys survive renaming (DESIGN.md section 4, C11).

E2: every key string of <=3/4 symbols over a wide alphabet (+ reserved words with a symbol around) as
the only renamed field of an object, as an object-valued and a list-of-objects-valued field (class
names), and all pairs from a 40-key pool in one object; x frameworks x unicode conversion on/off.
Oracle on the executed module: field names are distinct identifiers; whenever name != key the exact
key is attached (pydantic alias + parse_obj populates the field; J2M_ORIGINAL_FIELD metadata);
class names valid, distinct, not equal to imported names.  Keys outside the documented domain are
still run and reported under the three named known-finding classes only."""
import itertools
import keyword
import re

from mc import alphabet as A
from mc import core, pipeline, program

PROP = "C11"
SYMS = ["a", "B", "1", "_", "-", " ", ".", '"', "'", "\\", "é", "я", "日", "\u2028", "e\u0301", "\u212b",   # the last two are not NFC-normal
        "\U0001F600", "\U0001D400"]   # outside the BMP (JSON text spells them as surrogate pairs); the second transliterates to a letter
CONFIGS = [("pydantic", {}), ("sqlmodel", {}), ("attrs", {"meta": True}), ("dataclasses", {"meta": True}), ("base", {})]
POOL = ["a", "b", "ab", "a-b", "a_b", "a b", "aB", "Ab", "a.b", "class", "class_", "list", "List", "id", "pk", "1a", "a1", "one_a",
        "é", "e", "я", "ia", "日", "ri", "a\"b", "a'b", "a\\b", "type", "Type", "field", "Field", "self", "None", "none", "schema",
        "date", "Date", "a--b", "__a", "A_B", "cafe\u0301", "\u212a"]


def _keys(tier):
    L = 3 if tier == "quick" else 4
    syms = SYMS if tier != "quick" else SYMS
    seen = set()
    # the two symbols outside the BMP take part in all keys of length <= 2 and in the word forms (both tiers); the thorough tier's
    # length-3/4 strings stay over the first 16 symbols (18^4 would add 60% to its run time for no new class of key)
    base = A.key_strings(syms, 2) if tier == "quick" else itertools.chain(A.key_strings(syms[:16], L), A.key_strings(syms, 2))
    for k in itertools.chain(base, A.word_forms(A.KEY_WORDS, syms), A.KEYWORD_CASES):
        if k not in seen:
            seen.add(k)
            yield k
    if tier == "quick":
        # length 3 over a reduced alphabet keeps the quick tier short; thorough does all 13 symbols to length 4
        for k in A.key_strings(["a", "B", "1", "_", "-", '"', "\\", "é", "日"], 3):
            if k not in seen:
                seen.add(k)
                yield k


def domain(keys):
    """None if the key set is inside the documented domain, else the named out-of-domain class"""
    from unidecode import unidecode
    for k in keys:
        if not re.search(r"[A-Za-z]", unidecode(k)):
            return "empty_label"
    for k in keys:
        # the label that reaches the emitted class starts with an underscore (the key does, or only
        # characters that sanitising strips precede it)
        if re.sub(r"\W", "", k).startswith("_") or re.sub(r"\W", "", unidecode(k)).startswith("_"):
            return "leading_underscore"
    folds = [A.fold_key(k) for k in keys]
    if len(set(folds)) != len(folds):
        return "fold_equal"
    return None


def _cases(tier):
    for k in _keys(tier):
        yield {"mode": "field", "keys": [k]}
        yield {"mode": "class", "keys": [k]}
        if len(k) <= 2 or k in A.KEY_WORDS:
            yield {"mode": "nested_field", "keys": [k]}
    for a, b in itertools.combinations(POOL, 2):
        yield {"mode": "field", "keys": [a, b]}
        yield {"mode": "class", "keys": [a, b]}
    # a merged model is named after both keys (K1_K2); a third key spells the same words in one piece
    for k1, k2 in (("north", "point"), ("a", "b"), ("user", "info"), ("Order", "Line"), ("first", "name"), ("x1", "y2")):
        for joined in (f"{k1}_{k2}", f"{k1}{k2.capitalize()}", f"{k1}-{k2}"):
            yield {"mode": "merged_class", "keys": [k1, k2, joined]}
    # the root merges with its own list items (it keeps its given name and is registered again, last); another key generates that name
    for k in ("root", "roots", "Root", "ROOT"):
        yield {"mode": "recursive_root", "keys": [k]}
    # many models in one run (more than the 26 letters of one index generation), many of them with the same key-derived name
    for n in (14, 16, 20, 30):
        yield {"mode": "many_models", "keys": [f"n{n}"]}
    # optional renamed fields (key absent in a second sample): alias / metadata must survive the default
    seen = set()
    for k in itertools.chain(POOL, A.word_forms(A.KEY_WORDS, ["-", " "]), A.key_strings(SYMS, 2)):
        if k not in seen:
            seen.add(k)
            yield {"mode": "field_opt", "keys": [k]}
    # all pairs among short keys over reduced alphabets (collisions introduced by sanitising, e.g. repeated digits)
    small = list(A.key_strings(["a", "1", "_", "-", "B"], 2)) + [k for k in A.key_strings(["1", "a"], 3) if len(k) == 3]
    if tier != "quick":
        small = list(A.key_strings(SYMS, 2)) + [k for k in A.key_strings(["1", "a", "B"], 3) if len(k) == 3]
    for a, b in itertools.combinations(small, 2):
        yield {"mode": "field", "keys": [a, b]}
        if tier != "quick" or len(a) + len(b) <= 3:
            yield {"mode": "class", "keys": [a, b]}


def _samples(case):
    if case["mode"] in ("field", "field_opt"):
        o = {k: i + 1 for i, k in enumerate(case["keys"])}
        o["zz"] = 0
        return [o] if case["mode"] == "field" else [o, {"zz": 1}]
    if case["mode"] == "many_models":
        n = int(case["keys"][0][1:])
        return [{f"part{i}": {"item": {f"f{i}": i, f"g{i}": "x"}, f"h{i}": 1} for i in range(n)}]
    if case["mode"] == "recursive_root":
        return [{"uid": 1, "name": "n", "children": [{"uid": 2, "name": "m", "children": []}], case["keys"][0]: {"other": 1, "thing": "x"}}]
    if case["mode"] == "merged_class":
        k1, k2, joined = case["keys"]
        return [{k1: {"p": 1, "q": 2, "r": 3}, k2: {"p": 4, "q": 5, "r": 6}, joined: {"zz9": 1, "yy9": "x"}}]
    if case["mode"] == "nested_field":     # the renamed key lives in a non-root class (nested layout goes through indentation)
        return [{"inner": {case["keys"][0]: 1, "zz": 0}, "top": 1}]
    o = {}
    for i, k in enumerate(case["keys"]):
        o[k] = {f"f{i}": 1, "g": "x", "when": "2020-01-01"} if i % 2 == 0 else [{f"f{i}": 1, "h": [1], "at": "12:30"}]
    return [o]


def _shape(case, dom):
    toks = []
    for k in case["keys"]:
        ws = [w for w in A.KEY_WORDS if w.lower() == A.fold_key(k) or w == k.strip(" -._\"'\\")]
        if ws:
            toks += ["word:" + w for w in ws[:1]]
        else:
            toks += ["sym:" + (c if c.isalnum() else "U+%04X" % ord(c)) for c in sorted(set(k))]
    if len(case["keys"]) > 1:
        toks.append("pair")
    if dom:
        toks = ["dom:" + dom]
    return sorted(set(toks))


def _judge(prog, b, fw, kw, case, samples):
    """[(clause, detail)]"""
    out = []
    defs = prog.class_defs()
    names = [q[-1] for q, _ in defs]
    imported = set(prog.imported_names())
    for n in names:
        if not n.isidentifier() or keyword.iskeyword(n):
            out.append(("class_name_not_an_identifier", n))
        if n in imported:
            out.append(("class_name_equals_imported_name", n))
    if len(set(names)) != len(names):
        out.append(("class_names_not_distinct", str(names)))
    if len(names) != len(b.reg.models_map):
        out.append(("class_count_differs_from_model_count", f"{names} vs {len(b.reg.models_map)} models"))
    if out or case["mode"] in ("recursive_root", "many_models"):
        # (recursive_root: the root class is legitimately renamed Root_<index>; only the class-name clauses apply)
        return out
    root = prog.mod.__dict__.get("Root")
    if not isinstance(root, type):
        return [("root_class_missing", str(names))]
    if case["mode"] == "nested_field":
        root = vars(root).get("Inner")
        if not isinstance(root, type):
            return [("nested_class_missing", str(names))]
        samples = [samples[0]["inner"]]
    try:
        table = program.field_table(root, fw, meta_on=bool(kw.get("meta")))
    except Exception as e:
        return [("field_table_unavailable", f"{type(e).__name__}: {e}")]
    keys = list(samples[0].keys())
    fnames = [f.name for f in table]
    for n in fnames:
        if not n.isidentifier() or keyword.iskeyword(n):
            out.append(("field_name_not_an_identifier", n))
    if len(set(fnames)) != len(fnames) or len(fnames) != len(keys):
        out.append(("distinct_keys_do_not_give_distinct_fields", f"keys {keys} -> fields {fnames}"))
        return out
    recoverable = fw in ("pydantic", "sqlmodel") or kw.get("meta")
    if recoverable:
        by_key = {f.key: f for f in table}
        for k in keys:
            if k not in by_key:
                out.append(("original_key_not_attached", f"key {k!r}: fields {[(f.name, f.key) for f in table]}"))
        if not out and fw in ("pydantic", "sqlmodel") and case["mode"] in ("field", "field_opt", "nested_field"):
            try:
                inst = root.parse_obj(samples[0])
                for k, v in samples[0].items():
                    if getattr(inst, by_key[k].name) != v:
                        out.append(("alias_does_not_populate_field", f"key {k!r} -> {by_key[k].name} = {getattr(inst, by_key[k].name)!r}"))
            except Exception as e:
                out.append(("alias_does_not_populate_field", f"{type(e).__name__}: {str(e)[:200]}"))
    else:
        # key not recoverable by design: every identifier-like lower-case key must at least keep its name
        pass
    return out


def execute(case):
    samples = _samples(case)
    dom = domain(case["keys"])
    shape = _shape(case, dom)
    viol, obs, outcomes = [], [], []
    execs = 0
    seen = set()
    for fw, kw in CONFIGS:
        for uni in (True, False):
            kk = dict(kw)
            if not uni:
                kk["convert_unicode"] = False
            fam = "pydantic" if fw == "sqlmodel" else fw
            tag = fam + ("" if uni else "+nouni")
            found = []
            try:
                b = pipeline.build(samples, types=pipeline.ALL_TYPES)
                text = pipeline.render(b.reg, fw, "nested" if case["mode"] == "nested_field" else "flat", **kk)
                execs += 1
                with program.Program(text, fw) as prog:
                    found = _judge(prog, b, fw, kk, case, samples)
                    obs.append(core.digest(text))
            except program.LoadError as e:
                found = [("module_does_not_load", f"{e} || {text[-250:]}")]
            except Exception as e:
                found = [("generation_raises", f"{core.exc_site(e)}: {e}")]
            outcomes.append("ok" if not found else ("out_of_domain_fails" if dom else "bad"))
            for clause, detail in found:
                if dom:
                    key = ("dom", dom)
                    if key in seen:
                        continue
                    seen.add(key)
                    viol.append(core.viol("out_of_domain_key_fails", dom, shape, f"[{tag}] {clause}: {detail} keys={case['keys']!r}"))
                    continue
                if (clause, fam) in seen:
                    continue
                seen.add((clause, fam))
                viol.append(core.viol(clause, tag if (clause, fam + "x") in seen else fam + ("" if uni else "+nouni"), shape,
                                      f"[{fw}{'' if uni else ' nouni'}] {detail} keys={case['keys']!r}"))
    return {"obs": obs, "viol": viol, "execs": execs, "trans": execs, "outcome": outcomes[:2],
            "show": f"{case['mode']} {case['keys']!r} domain={dom or 'in'}", "nontrivial": core.digest(case) if not dom else None}


def run(tier, seed):
    r = core.Run(PROP, tier, seed)
    r.rule = ("E2: all key strings of <=2 symbols over 13 symbols + <=3 over 9 symbols (quick) / <=4 over 13 symbols (thorough), 27 reserved "
              "words with one symbol around, all 780 pairs from a 40-key pool; each as scalar field(s) and as object / list-of-objects "
              "field(s); x {pydantic, sqlmodel, attrs+meta, dataclasses+meta, base} x unicode on/off; non-trivial = in-domain cases")
    r.bounds = {"tier": tier}
    r.assumptions = ["domain (>=1 ASCII-transliterable letter, no leading underscore, pairwise fold-distinct) computed with the check's own "
                     "folding; out-of-domain failures are reported only under the three named known-finding classes"]
    for case, res in core.pmap(execute, _cases(tier), chunksize=16, budget_s=240 if tier == "quick" else 1800):
        r.add(case, res)
    if core.pmap.capped:
        r.caps.append("wall budget hit")
    return r.finish(replay_fn=execute)
