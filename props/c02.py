"""C02 - inferred types are tight (DESIGN.md section 4, C02).

E1 history-tree explorer over sample histories; oracle: the final ModelRegistry graph is walked in
parallel with the samples (mc.ir.Walk) and every Optional / union member / element type / literal /
Any must have a witness among the values routed to its position."""
from mc import alphabet as A
from mc import core, ir, pipeline

PROP = "C02"
LIT_POOL = [f"s{i:02d}" for i in range(17)]


def _cases(tier):
    one = A.VALUE_NAMES + [A.ABSENT]
    two = [["2", a, b] for a in A.TWO_FIELD for b in A.TWO_FIELD]
    if tier == "quick":
        for h in A.histories(one + two, 2):
            yield {"h": h}
        for h in A.histories(A.ATOM_NAMES + [A.ABSENT, "L(null)", "L(int)", "O(k:int)", "O(k:null)", "L(O(k:int))"], 3, 3):
            yield {"h": h}
        for h in A.histories(two, 3, 3):
            yield {"h": h}
        for h in A.histories(one, 3, 3):
            yield {"h": h}
        gmax = 3
    else:
        for h in A.histories(one, 3):
            yield {"h": h}
        for h in A.histories(two, 3):
            yield {"h": h}
        for h in A.histories(A.ATOM_NAMES + [A.ABSENT, "L(null)", "L(int)", "O(k:int)", "O(k:null)"], 4, 4):
            yield {"h": h}
        gmax = 4
    for spec in A.graph_specs(gmax):
        for merge in pipeline.MERGE_POLICIES:
            yield {"h": [["G", spec]], "merge": merge, "dkr": [r"k\d"]}
    # merged models whose shared field varies (required in one member, present / absent / other kind in the others)
    for v0 in A.VARIED_ATOMS:
        for v1 in A.VARIED_ATOMS:
            for v2 in A.VARIED_ATOMS:
                for rf in (False, True):
                    yield {"h": [["J", A.varied_merge_samples(v0, v1, v2, rf)[0]]], "vm": [v0, v1, v2, rf]}
    # literal hard limits: 15/16 distinct strings, length 19/20
    for n in (1, 2, 14, 15, 16, 17):
        for extra in ([], ["y" * 19], ["y" * 20], [None], ["1"]):
            vals = LIT_POOL[:n] + extra
            yield {"h": [["J", {"a": v}] for v in vals]}
            yield {"h": [["J", {"a": vals}]]}
    # dict options
    for dkr, dkf in (([r"a\d"], None), (None, ["m"]), ([r"\w+"], None)):
        for o1 in ({"m": {"a1": 1, "a2": "x"}}, {"m": {"a1": None}}, {"m": {}}, {"m": {"a1": [1]}},
                   # mappings whose values are all falsy but not null: 0, false, "", [], {}
                   {"m": {"a1": 0, "a2": 0}}, {"m": {"a1": False}}, {"m": {"a1": ""}}, {"m": {"a1": []}}, {"m": {"a1": 0.0, "a2": None}}):
            for o2 in ({"m": {"a1": 1.5}}, {"m": None}, {"m": {"zz": 1}}, {}, {"m": {"a2": 0}}, {"m": {"a1": False, "a2": False}}):
                yield {"h": [["J", o1], ["J", o2]], "dkr": dkr, "dkf": dkf}
            yield {"h": [["J", o1]], "dkr": dkr, "dkf": dkf}


def _samples(case):
    out = []
    for s in case["h"]:
        if isinstance(s, list) and s[0] == "G":
            out.extend(A.graph_samples(s[1]))
        else:
            out.append(A.sample_from_symbol(s))
    return out


def _in_container(pos):
    return pos[-1] in ("L", "D") or (len(pos) >= 2 and pos[-1] == "O" and pos[-2] in ("L", "D"))


def tightness(root, samples):
    """[(clause, position, detail)]"""
    w = ir.Walk()
    for s in samples:
        w.push(root, s, ("root",))
    out = []
    for mid, model in w.models.items():
        objs = w.objects[mid]
        for name, t in ir.fields_of(model).items():
            if ir.kind(t) == "opt" and not any(name not in o or o[name] is None for o in objs):
                out.append(("optional_without_witness", f"{name}", ir.type_shape(t)))
    for pos, t in w.types.items():
        vals = w.at.get(pos, [])
        k = ir.kind(t)
        last = pos[-1]
        if k == "opt" and last in ("L", "D") and not any(v is None for v in vals):
            out.append(("optional_element_without_null", _p(pos), ir.type_shape(t)))
        if k == "union":
            for i, m in enumerate(t.types):
                mv = w.at.get(pos + ("U%d" % i,), [])
                if not any(ir.witness(m, v) for v in mv):
                    out.append(("union_member_without_witness", _p(pos), f"{ir.type_shape(m)} in {ir.type_shape(t)}"))
                if ir.kind(m) == "any" and len(t.types) > 1:
                    # statement: Any appears only as THE element type of a container observed empty; next to a member that some
                    # value exhibited it admits everything, which is none of the listed widenings (anchor generator.py:257-259:
                    # Unknown is dropped from unions that have a concrete member)
                    out.append(("any_next_to_concrete_union_member", _p(pos), ir.type_shape(t)))
        if last in ("L", "D"):
            inner, ipos = t, pos
            if k == "opt":
                inner, ipos = t.type, pos + ("O",)
            ik = ir.kind(inner)
            ivals = w.at.get(ipos, [])
            if ik == "any":
                # statement: Any only as element type of a container that was observed empty (or holding
                # only nulls) -> some container routed here must be such a witness
                conts = [c for c in w.at.get(pos[:-1], []) if isinstance(c, (list, dict))]
                if not any(all(e is None for e in (c.values() if isinstance(c, dict) else c)) for c in conts):
                    out.append(("any_without_empty_container", _p(pos), f"{[ir.jkind(v) for v in ivals][:4]}"))
                # ... and a container that could only be routed here (no other union member admits it) must not hold a non-null
                # element: its element kind was observed, so Any would be a widening the statement does not list
                flags = w.sole.get(pos[:-1], [])
                for c, only in zip(w.at.get(pos[:-1], []), flags):
                    if only and isinstance(c, (list, dict)) and any(e is not None for e in (c.values() if isinstance(c, dict) else c)):
                        out.append(("any_although_elements_were_observed", _p(pos), f"{[ir.jkind(e) for e in (c.values() if isinstance(c, dict) else c)][:4]}"))
                        break
            elif ik != "union" and not any(ir.witness(inner, v) for v in ivals):
                out.append(("element_type_without_witness", _p(pos), ir.type_shape(t)))
        if k == "lit" and not t.overflowed:
            seen = {v for v in vals if isinstance(v, str)}
            extra = set(t.literals) - seen
            if extra:
                out.append(("literal_not_observed", _p(pos), f"{sorted(extra)[:3]}"))
        if k == "any" and not _in_container(pos):
            out.append(("any_outside_container", _p(pos), ""))
    return out, w


def _p(pos):
    return "/".join(str(x) for x in pos[1:] if not (isinstance(x, str) and x[:1].isdigit() and x[1:2].isalpha() and len(x) <= 3)) or "/"


def execute(case):
    samples = _samples(case)
    shape = sorted({A.symbol_name(s) if not isinstance(s, str) else s for s in case["h"]})
    if any(isinstance(s, list) and s[0] == "2" for s in case["h"]) and all(isinstance(s, str) or s[0] == "2" for s in case["h"]):
        shape = sorted({x for s in case["h"] for x in ([s] if isinstance(s, str) else [s[1], s[2]])})
    if any(isinstance(s, list) and s[0] == "J" for s in case["h"]):
        shape = ["J:" + core.digest(case["h"])]
    if "vm" in case:
        shape = sorted({f"vm:{x}" for x in case["vm"][:3]}) + (["rows_first"] if case["vm"][3] else [])
    viol = []
    try:
        b = pipeline.build(samples, types=pipeline.ALL_TYPES, dkr=case.get("dkr"), dkf=case.get("dkf"),
                           merge=case.get("merge", "default"))
    except Exception as e:
        site = core.exc_site(e)
        return {"obs": ["exc:" + site], "viol": [], "outcome": "raises(C01's business):" + site, "show": str(e)[:100]}
    found, w = tightness(b.root, samples)
    cg = ir.canon_graph([b.root])
    for clause, pos, detail in found:
        viol.append(core.viol(clause, pos.split("/")[-1] if clause != "optional_without_witness" else "field", shape,
                              f"at {pos}: {detail}; graph={cg}"))
    # the same walk over the registry as it stands before merge_models (what a library user who does not merge renders, and the
    # graph every merge starts from): a widening that the re-simplification inside merge_models happens to repair is still one
    try:
        b0 = pipeline.build(samples, types=pipeline.ALL_TYPES, dkr=case.get("dkr"), dkf=case.get("dkf"), do_merge=False)
        found0, _ = tightness(b0.root, samples)
    except Exception:
        found0 = []     # a raising build is C01's business (and was seen above if it is not merge specific)
    have = {(c, p) for c, p, _ in found}
    for clause, pos, detail in found0:
        if (clause, pos) not in have:
            viol.append(core.viol(clause, "unmerged:" + (pos.split("/")[-1] if clause != "optional_without_witness" else "field"), shape,
                                  f"before merge_models, at {pos}: {detail}; graph={ir.canon_graph([b0.root])}"))
    d = core.digest(repr(cg))
    return {"obs": [d], "viol": viol, "execs": 2, "trans": len(samples), "outcome": "tight" if not found else "untight",
            "show": repr(cg)[:240], "unroutable": w.unroutable,
            "nontrivial": d if ("union" in repr(cg) or "opt" in repr(cg) or len(cg) > 1) else None}


def run(tier, seed):
    r = core.Run(PROP, tier, seed)
    r.rule = ("E1: all sample histories within the bound (same alphabet as C01, IR level) + graph inputs x merge policies + "
              "literal-limit and dict-option inputs; non-trivial = distinct canonical graph with a union/optional or >1 model")
    r.bounds = {"tier": tier}
    r.assumptions = ["values that C01 finds unroutable are counted (coverage.unroutable_values) and skipped here",
                     "a value admitted by two union members counts as witness for both (lenient)"]
    unr = 0
    budget = 240 if tier == "quick" else 1500
    for case, res in core.pmap(execute, _cases(tier), chunksize=128, budget_s=budget):
        r.add(case, res)
        unr += res.get("unroutable", 0)
    if core.pmap.capped:
        r.caps.append(f"wall budget {budget}s hit")
    r.extra["unroutable_values"] = unr
    return r.finish(replay_fn=execute)
