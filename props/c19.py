"""C19 - header and preamble never corrupt the generated module (DESIGN.md section 4, C19).

E8: every string of <=2 (quick) / <=3 (thorough) symbols over a quote / triple-quote / backslash /
newline / non-ASCII alphabet placed as a free-text option value, inside a comment preamble, inside an
assignment preamble, and as part of a file name; blank preambles; x 5 frameworks.  The real main()
runs in forked children (a subset as real subprocesses).  Oracle on the AST of stdout."""
import ast
import itertools
import json
import os
import shutil
import tempfile

from mc import clidrv, core
from props import c16

PROP = "C19"
SYMS = ['"', "'", "\\", "\n", "é", "a", " ", "#", '"""', "'''", "U", "x", "\u2028", "\x0c", "e\u0301", "\u212b"]     # the last two are not NFC-normal
NAMES = {'"': "dq", "'": "sq", "\\": "bs", "\n": "nl", "é": "eacute", "a": "a", " ": "sp", "#": "hash", '"""': "dq3", "'''": "sq3", "U": "U", "x": "x", "\u2028": "ls", "\x0c": "ff", "e\u0301": "e_combining_acute", "\u212b": "angstrom_sign"}
FWS = ["base", "pydantic", "sqlmodel", "attrs", "dataclasses"]
BLANKS = ["", " ", "\n\n", "\t", " \n \t "]
SAMPLES = [{"id": 1, "name": "x", "tags": ["a"], "owner": {"n": 1, "site": {"u": "v"}}}, {"id": 2, "name": "y", "tags": [], "owner": {"n": 2, "site": {"u": "w"}}}]
SAMPLES_NOIMPORT = [{"id": 1, "n": 2}]


# preambles that begin and / or end with a quote character (string statements, docstring-like blocks)
QUOTED_PREAMBLES = (
    '"marker"', '""', '"""note"""\nNAME = "value"', "'x'", '"a" "b"', 'X = "v"', '"doc"\nY = 1', "\'\'\'d\'\'\'\nZ = \'z\'", '"a", "b"',
    'EMPTY = ""', '""\nX = 1', 'X = ["", ""]',
)


def _cases(tier):
    L = 2 if tier == "quick" else 3
    for k in range(1, L + 1):
        for t in itertools.product(range(len(SYMS)), repeat=k):
            for place in ("dkf", "comment", "assign_repr", "assign_triple", "filename"):
                for fw in FWS:
                    if tier == "quick" and k == 2 and fw in ("sqlmodel", "attrs") and place != "comment":
                        continue
                    yield {"w": list(t), "place": place, "fw": fw, "data": "std"}
            for place in ("comment", "assign_repr"):
                yield {"w": list(t), "place": place, "fw": "base", "data": "noimport"}
    for i, b in enumerate(BLANKS):
        for fw in FWS:
            yield {"blank": i, "place": "blank", "fw": fw, "data": "std"}
            yield {"blank": i, "place": "blank", "fw": fw, "data": "noimport"}
    for fw in FWS:
        for pre in ("import os\nX = os.sep", "class Helper:\n    pass", "# a\n# b\n\nY = [\n    1,\n]", "    # indented comment", "X = 1\n\n\n\nZ = 2",
                    "X = '{{ y }}'  # {% if z %}", "def f():\n    return {\n        'k': 1,\n    }", "from typing import Tuple\nT = Tuple[int, int]",
                    "X = 1  \n\n# trailing spaces above", "\tY = 2", "X = 1\n    \nY = 2", 'S = """a\n  \n\t\nb"""', "# 100% sure\nP = '%d items' % 3") + QUOTED_PREAMBLES:
            yield {"pre": pre, "place": "literal_preamble", "fw": fw, "data": "std"}
            yield {"pre": pre, "place": "literal_preamble", "fw": fw, "data": "noimport"}
            yield {"pre": pre, "place": "literal_preamble", "fw": fw, "data": "two_models"}
            yield {"pre": pre, "place": "literal_preamble", "fw": fw, "data": "std", "nested": True}


def _word(case):
    return "".join(SYMS[i] for i in case["w"])


def _is_valid(p):
    try:
        ast.parse(p)
        return True
    except (SyntaxError, ValueError):
        return False


def execute(case, force_subprocess=False):
    d = tempfile.mkdtemp(prefix="c19_")
    viol = []
    try:
        samples = SAMPLES_NOIMPORT if case["data"] == "noimport" else SAMPLES
        fname = "in.json"
        preamble = None
        extra = []
        place = case["place"]
        if place == "blank":
            preamble = BLANKS[case["blank"]]
            shape = [f"blank:{case['blank']}"]
        elif place == "literal_preamble":
            preamble = case["pre"]
            shape = ["pre:" + core.digest(preamble)]
        else:
            w = _word(case)
            shape = sorted({"sym:" + NAMES[SYMS[i]] for i in case["w"]}) + ["place:" + place]
            if place == "dkf":
                extra = ["--dkf", w]
            elif place == "comment":
                preamble = "# " + w.replace("\n", "\n# ")
            elif place == "assign_repr":
                preamble = "X = " + repr(w)
            elif place == "assign_triple":
                preamble = 'X = """' + w + '"""'
                if not _is_valid(preamble):
                    return {"obs": ["skip"], "viol": [], "outcome": "preamble_not_python(skipped)", "show": preamble[:40]}
            elif place == "filename":
                if "/" in w or "\x00" in w:
                    return {"obs": ["skip"], "viol": [], "outcome": "skip", "show": ""}
                fname = "in" + w + ".json"
        shape.append("data:" + case["data"])
        with open(os.path.join(d, fname), "w", encoding="utf8") as f:
            json.dump(samples, f)
        argv = ["-m", "Root", fname, "-f", case["fw"]] + extra
        models = [("Root", samples)]
        if case["data"] == "two_models":
            with open(os.path.join(d, "second.json"), "w", encoding="utf8") as f:
                json.dump([{"other": "x", "vals": [1.5]}], f)
            argv = ["-m", "Root", fname, "-m", "Second", "second.json", "-f", case["fw"]] + extra
            models.append(("Second", [{"other": "x", "vals": [1.5]}]))
        if case.get("nested"):
            argv += ["-s", "nested"]
        if preamble is not None:
            argv += ["--preamble", preamble]
        params = {"fw": case["fw"]}
        if case.get("nested"):
            params["layout"] = "nested"
        if place == "dkf":
            params["dkf"] = [_word(case)]
        ref_nopre = c16.reference(models, dict(params))
        params["preamble"] = preamble
        ref = c16.reference(models, params)
        runner = clidrv.run_subprocess if force_subprocess else clidrv.run_inproc
        status, out, err = runner(argv, d)
        site = "pydantic" if case["fw"] == "sqlmodel" else case["fw"]

        def V(clause, detail):
            viol.append(core.viol(clause, site, shape, f"{detail} || argv={argv!r}"))
        if status != 0:
            V("cli_fails", f"status {status}: {err[-200:]}")
            return {"obs": ["fail"], "viol": viol, "outcome": "cli_fails", "show": err[-80:]}
        try:
            tree = ast.parse(out)
        except (SyntaxError, ValueError) as e:
            V("output_is_not_valid_python", f"{type(e).__name__}: {e} || {out[:160]!r}")
            return {"obs": ["syntax"], "viol": viol, "outcome": "syntax_error", "show": str(e)[:80]}
        b0 = tree.body[0] if tree.body else None
        # "the first statement is the header string": a bare string constant; its wording is not part of the property
        if not (isinstance(b0, ast.Expr) and isinstance(b0.value, ast.Constant) and isinstance(b0.value.value, str)
                and "json2python-models" in b0.value.value):
            V("first_statement_is_not_the_header_string", f"{ast.dump(b0)[:160] if b0 else None}")
            return {"obs": ["nohdr"], "viol": viol, "outcome": "no_header", "show": out[:80]}
        rest_lines = out.split("\n")[b0.end_lineno:]
        rest = "\n".join(rest_lines)
        try:
            same_ast = ast.dump(ast.parse(rest)) == ast.dump(ast.parse(ref))
        except SyntaxError:
            same_ast = None   # the preamble itself is not Python; the library text is then not parseable either
        if same_ast is False:
            V("module_body_differs_from_library_output", f"cli rest {rest[:200]!r} / library {ref[:200]!r}")
        p = (preamble or "").strip()
        if preamble is not None and p and _is_valid(p):
            n = rest.count(p)
            lines = rest.split("\n")
            first_class = next((i for i, l in enumerate(lines) if l.startswith("class ") or l.startswith("@")), len(lines))
            last_import = max((i for i, l in enumerate(lines[:first_class]) if l.startswith("import ") or l.startswith("from ")
                               and l not in p.split("\n")), default=-1)
            pos = rest.find(p)
            line_of = rest[:pos].count("\n") if pos >= 0 else -1
            in_ref = ref.count(p)
            if n != 1 and not (n > 1 and in_ref == n and ref_nopre.count(p) == n - 1):
                V("preamble_not_exactly_once", f"{n} occurrences of {p!r} in {rest[:240]!r}")
            elif n == 1 and not (last_import < line_of < first_class + p.count("\n") + 1 and line_of <= first_class):
                # class-like / import-like lines inside the preamble itself are part of the preamble
                pre_end = line_of + p.count("\n")
                real_first_class = next((i for i, l in enumerate(lines) if (l.startswith("class ") or l.startswith("@")) and not
                                         (line_of <= i <= pre_end)), len(lines))
                real_last_import = max((i for i, l in enumerate(lines[:real_first_class]) if (l.startswith("import ") or l.startswith("from "))
                                        and not (line_of <= i <= pre_end)), default=-1)
                if not (real_last_import < line_of and pre_end < real_first_class):
                    V("preamble_misplaced", f"preamble at line {line_of}, last import {real_last_import}, first class {real_first_class}: {rest[:240]!r}")
        if preamble is not None and not p:
            if rest.rstrip("\n") != ref_nopre.rstrip("\n"):
                V("blank_preamble_changes_output", f"{rest[:200]!r} vs {ref_nopre[:200]!r}")
        return {"obs": [core.digest(rest)], "viol": viol, "outcome": "ok" if not viol else "bad", "show": repr(argv)[:200], "got": out,
                "nontrivial": core.digest(case) if place != "blank" else None}
    finally:
        shutil.rmtree(d, ignore_errors=True)


def _subproc(case):
    return execute(case, force_subprocess=True)


def run(tier, seed):
    r = core.Run(PROP, tier, seed)
    r.rule = ("all strings of <=2/3 symbols over 14 symbols (dq, sq, backslash, newline, e-acute, a, space, #, triple dq, triple sq, U, x, U+2028, form feed) x placement "
              "{--dkf value, comment preamble, repr assignment preamble, triple-quoted assignment preamble, file name} x 5 frameworks; 5 blank "
              "preambles and 5 multi-line preambles x frameworks x {typed, import-free} data; non-trivial = non-blank cases")
    r.bounds = {"tier": tier}
    r.assumptions = ["argv strings containing NUL are not representable; file names containing '/' are skipped",
                     "the header is located through the AST (end line of the first statement), not by counting lines"]
    cases = list(_cases(tier))
    sub = []
    for case, res in core.pmap(execute, cases, chunksize=8, budget_s=240 if tier == "quick" else 1500):
        got = res.pop("got", None)
        r.add(case, res)
        if got is not None:
            sub.append((case, got))
    if core.pmap.capped:
        r.caps.append("wall budget hit")
    step = max(1, len(sub) // (100 if tier == "quick" else 300))
    chosen = sub[::step]
    want = {core.jdump(c): clidrv.strip_timestamp(g) for c, g in chosen}
    n = 0
    for case, res in core.pmap(_subproc, [c for c, _ in chosen], chunksize=2):
        n += 1
        g2 = res.get("got")
        if g2 is None:
            continue
        # argv[0] differs between the drivers: compare from the code after the header on
        a = clidrv.split_header(g2)[1]
        w = want[core.jdump(case)]
        b = clidrv.split_header(w)[1]
        if a != b:
            r.raw_violations.append((dict(case, subprocess=True), core.viol("in_process_driver_differs_from_subprocess", "driver", [], "")))
    r.extra["subprocess_bound_cases"] = n

    def replay(c):
        res = execute({k: v for k, v in c.items() if k != "subprocess"}, force_subprocess=bool(c.get("subprocess")))
        res.pop("got", None)
        return res
    return r.finish(replay_fn=replay)
