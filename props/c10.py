"""C10 - Literal annotations follow the documented limits and hold exact values (DESIGN.md section 4, C10).

E1: one position observed with n distinct plain strings (n = 0..17) x max_literals 0..16 x length
class x co-occupant x arrival (separate samples / one list) x 5 frameworks; escaping: every string
of <=3 symbols over a quote/backslash/newline/comma/non-ASCII alphabet.  Oracle evaluated on the
annotation of the executed module."""
import itertools
import typing

from mc import core, ir, pipeline, program

PROP = "C10"
FWS = ["base", "pydantic", "sqlmodel", "attrs", "dataclasses"]
POOL = [f"s{i:02d}" for i in range(18)]
LEN_CLASSES = {"short": None, "len19": "y" * 19, "len20": "y" * 20, "len21": "y" * 21, "len0": "", "blank": " ",
               # every string at the length limit (19 characters, differing in the 2nd/3rd): the whole set is as long as a legal
               # Literal can get (15 x 19 characters) - what any bounded textual identity / repr of a literal set would cut
               "all19": "<all>"}
CO = ["none", "null", "absent", "pseudo_int", "pseudo_mix"]
ESC_SYMBOLS = ['"', "'", "\\", "\n", ",", "é", "a", "A", "\U0001F600", "\u2028", "\x85"]


def _cases(tier):
    ns = range(0, 18)
    ms = range(0, 17) if tier != "quick" else (0, 1, 2, 3, 5, 9, 10, 11, 14, 15, 16)
    for n in ns:
        for lc in LEN_CLASSES:
            if n == 0 and lc != "short":
                continue
            for co in CO:
                for arrival in ("samples", "list", "two_lists", "samples_reversed"):
                    if arrival in ("list", "two_lists") and co == "absent":
                        continue
                    if arrival == "samples_reversed" and (co not in ("absent", "null") or n == 0):
                        continue
                    if arrival == "two_lists" and n < 2:
                        continue
                    yield {"k": "limit", "n": n, "len": lc, "co": co, "arrival": arrival, "ms": list(ms),
                           "fws": FWS if tier != "quick" or co in ("none", "pseudo_mix") else ["pydantic", "attrs", "dataclasses"]}
    L = 3 if tier != "quick" else 2
    strs = ["".join(t) for k in range(1, L + 1) for t in itertools.product(ESC_SYMBOLS, repeat=k)]
    for s in strs:
        yield {"k": "esc", "strings": [s]}
        if len(s) <= 2:
            yield {"k": "esc", "strings": [s], "nested": True}
    for s in ("", " ", "\t"):
        # the empty and the blank string are plain strings like any other
        yield {"k": "esc", "strings": [s]}
        yield {"k": "esc", "strings": [s], "nested": True}
        yield {"k": "esc", "strings": [s, "a"]}
        yield {"k": "esc", "strings": ["a", s], "lists": [[0, 1]]}
        yield {"k": "esc", "strings": ["a", s], "lists": [[0], [1]]}
    sub = strs[:8] + strs[8:72:4][:16]
    for a, b in itertools.combinations(sub, 2):
        yield {"k": "esc", "strings": [a, b]}
    # wrapped literal sets that could be confused when their textual identity is ambiguous: {a<sep>b} vs {a, b}
    singles = [s for s in strs if len(s) == 1] + ["ab", "..."]
    for a in singles:
        for b in singles:
            for sep in (",", ", ", "/"):
                for order in (0, 1):
                    yield {"k": "esc", "strings": [a + sep + b, a, b], "lists": [[0], [1, 2]] if order == 0 else [[1, 2], [0]]}
    if tier != "quick":
        for t in itertools.product(['"', "\\", "'", "\n"], repeat=4):
            yield {"k": "esc", "strings": ["".join(t)]}


def _strings(case):
    n = case["n"]
    out = POOL[:n]
    special = LEN_CLASSES[case["len"]]
    if special == "<all>":
        return [x + "y" * (19 - len(x)) for x in out]
    if special is not None and n > 0:
        out = [special] + out[1:]
    return out


def _samples(case, strs):
    co = case.get("co", "none")
    extra = {"none": [], "null": [None], "absent": ["<absent>"], "pseudo_int": ["1"], "pseudo_mix": ["1", "true"]}[co]
    if case.get("arrival", "samples") == "list":
        vals = list(strs) + [e for e in extra]
        return [{"a": vals}] if vals else [{"a": []}]
    if case.get("arrival") == "two_lists":
        # two list-valued samples sharing all but their last string (long common prefix of the sorted values)
        first = list(strs[:-1]) + list(extra)
        second = list(strs[:-2]) + [strs[-1]]
        return [{"a": first}, {"a": second}]
    out = [{"a": s} for s in strs]
    for e in extra:
        out.append({} if e == "<absent>" else {"a": e})
    if case.get("arrival") == "samples_reversed":
        # the co-occupant (absent / null) first, the special-length string last: the position is already Optional[short literals]
        # when the long string arrives
        out = out[::-1]
    return out or [{"b": 1}]


def _literals_in(h, out):
    o = typing.get_origin(h)
    if o is typing.Literal:
        out.append(set(typing.get_args(h)))
    for a in typing.get_args(h) or ():
        if o is not typing.Literal:
            _literals_in(a, out)
    return out


def _has_str(h):
    if h is str:
        return True
    if typing.get_origin(h) is typing.Literal:
        return False
    return any(_has_str(a) for a in typing.get_args(h) or ())


def _render_and_read(samples, fw, m, nested=False, b=None):
    if nested:   # the literal position sits in a non-root class of the nested layout
        samples = [{"n": s, "top": 1} for s in samples]
    if b is None:
        b = pipeline.build(samples, types=pipeline.DEFAULT_TYPES)
    kw = {} if m is None else {"max_literals": m}
    text = pipeline.render(b.reg, fw, "nested" if nested else "flat", **kw)
    with program.Program(text, fw) as prog:
        hints = prog.hints(("Root", "N") if nested else ("Root",))
    return hints.get("a"), text


def execute(case):
    viol, obs, outcomes = [], [], []
    execs = 0
    if case["k"] == "esc":
        strs = case["strings"]
        shape = ["c:" + (ch if ch.isalnum() else "U+%04X" % ord(ch)) for ch in sorted(set("".join(strs)))]
        for fw in ("pydantic", "dataclasses", "base", "sqlmodel"):
            try:
                if case.get("lists"):
                    samples_e = [{"a": [strs[i] for i in grp]} for grp in case["lists"]]
                else:
                    samples_e = [{"a": s} for s in strs]
                h, text = _render_and_read(samples_e, fw, None, nested=bool(case.get("nested")))
                execs += 1
            except Exception as e:
                viol.append(core.viol("module_with_literal_does_not_load", fw if fw != "sqlmodel" else "pydantic", shape, f"{strs!r}: {type(e).__name__}: {e}"))
                break
            lits = _literals_in(h, [])
            got = set().union(*lits) if lits else None
            if got != set(strs) and not (len(set(strs)) < len(strs) and got == set(strs)):
                viol.append(core.viol("literal_values_differ_from_observed_strings", fw if fw != "sqlmodel" else "pydantic",
                                      shape + (["wrapped_sets"] if case.get("lists") else []) + (["nested"] if case.get("nested") else []), f"observed {strs!r}, annotation {h!r}"))
                break
            obs.append("esc-ok")
        return {"obs": list(set(obs)) or ["esc-bad"], "viol": viol, "execs": execs, "trans": execs, "outcome": "esc", "show": repr(strs),
                "nontrivial": "esc:" + core.digest(strs)}
    strs = _strings(case)
    n = len(strs)
    samples = _samples(case, strs)
    generalised = case["co"] == "pseudo_mix"
    all_short = all(len(s) < 20 for s in strs)
    plan = [(fw, m, None) for fw in case["fws"] for m in case["ms"]]
    if case["arrival"] == "samples" and case["co"] in ("none", "null"):
        # one registry rendered by several generators in turn (what a user does to compare frameworks): the limits hold per rendering
        shared = pipeline.build(samples, types=pipeline.DEFAULT_TYPES)
        plan += [(fw, m, shared) for m in (16, 3) for fw in ("attrs", "pydantic", "dataclasses", "attrs", "base")]
    for fw, m, shared_b in plan:
        fam = "pydantic" if fw == "sqlmodel" else fw
        if True:
            shape = [f"n:{n}", f"m:{m}", case["len"], "co:" + case["co"], case["arrival"]] + (["shared_registry"] if shared_b is not None else [])
            try:
                h, text = _render_and_read(samples, fw, m, b=shared_b)
                execs += 1
            except Exception as e:
                viol.append(core.viol("generation_or_load_fails", fam, shape, f"{type(e).__name__}: {e}"))
                continue
            lits = _literals_in(h, [])
            allowed = all_short and 1 <= n <= 15 and n < m and fw != "attrs" and m > 0
            present = bool(lits)
            if present and not allowed:
                viol.append(core.viol("literal_emitted_outside_limits", fam, shape, f"annotation {h!r}"))
            if allowed and not generalised and not present:
                viol.append(core.viol("literal_missing_within_limits", fam, shape, f"annotation {h!r}"))
            if present:
                got = set().union(*lits)
                if got != set(strs):
                    viol.append(core.viol("literal_values_differ_from_observed_strings", fam, shape,
                                          f"observed {sorted(strs)[:4]}.. ({n}), annotation {h!r}"))
            if not present and n > 0 and h is not None and not _has_str(h) and fw not in ():
                viol.append(core.viol("plain_strings_neither_literal_nor_str", fam, shape, f"annotation {h!r}"))
            obs.append(f"{fw}|{'L' if present else 'S'}|{min(n, 16)}|{m}|{case['len']}")
            outcomes.append("literal" if present else "str")
    return {"obs": list(set(obs)), "viol": viol, "execs": execs, "trans": execs, "outcome": outcomes[:1],
            "show": f"n={n} {case['len']} {case['co']} {case['arrival']}", "nontrivial": core.digest(case) if n > 1 else None}


def run(tier, seed):
    r = core.Run(PROP, tier, seed)
    r.rule = ("n distinct strings (0..17) x max_literals (0..16) x {all short, one of 19/20/21 chars} x co-occupant {none,null,absent,int-string,"
              "int+bool strings} x arrival {samples, one list} x 5 frameworks; escaping: all strings of <=2/3 symbols over 8 symbols (quote, "
              "apostrophe, backslash, newline, comma, e-acute, a, astral) + pairs; non-trivial = cases with >=2 strings")
    r.bounds = {"tier": tier}
    r.assumptions = ["'generalised to str' is decided by the input class (int+bool pseudo strings collapse to str)",
                     "default string registry (int/float/bool)"]
    for case, res in core.pmap(execute, _cases(tier), chunksize=8, budget_s=240 if tier == "quick" else 1500):
        r.add(case, res)
    if core.pmap.capped:
        r.caps.append("wall budget hit")
    return r.finish(replay_fn=execute)
