"""C13 - dict-field options turn objects into mappings, and only those (DESIGN.md section 4, C13).

E1/E2: every key set over {a1,a2,b1,xx,a1x} (+ empty) at four positions x regex lists x field-name
lists x second sample, at the library seam (MetadataGenerator(dict_keys_regex=..), re.match as
documented for the constructor) and at the CLI seam (in-process Cli with --dkr/--dkf on temp files,
patterns anchored at both ends).  Oracle: the README rule written here (classify), compared per
position with the kinds of type the real pipeline produced."""
import itertools
import json
import os
import re
import tempfile

from mc import core, ir, pipeline

PROP = "C13"
KEYS = ["a1", "a2", "b1", "xx", "a1x", "A1", "xa1"]
KEYSETS = [list(c) for n in range(0, 5) for c in itertools.combinations(KEYS, n)]
PATTERNS = [r"a\d", r"b\d", r"[ab]\d", r"\w+", r"a"]
REGEX_LISTS = [list(c) for n in range(0, 3) for c in itertools.combinations(PATTERNS, n)]
FIELD_LISTS = [[], ["m"], ["dict_field"], ["zz"], ["CamelField"], ["camelfield", "camel_field", "M"], ["m,n"], ["m", "n"], ["m "]]
POSITIONS = ["field_m", "field_dict_field", "field_camel", "list_elem", "dict_value", "top", "field_comma", "field_space"]
SECOND = ["none", "other_object", "null", "empty_first"]


def _cases(tier):
    regs = REGEX_LISTS if tier != "quick" else [r for r in REGEX_LISTS if len(r) <= 1] + [[r"a\d", r"b\d"], [r"a", r"\w+"]]
    seconds = SECOND if tier != "quick" else ["none", "other_object", "empty_first"]
    for pos in POSITIONS:
        for ks in KEYSETS:
            if tier == "quick" and len(ks) > 3:
                continue
            for rl in regs:
                for fl in FIELD_LISTS:
                    for sec in seconds:
                        yield {"seam": "lib", "pos": pos, "keys": ks, "dkr": rl, "dkf": fl, "second": sec}
            # compiled patterns carrying flags (and the same text with and without a flag)
            for rl in ([[r"a\d", "I"]], [[r"[ab]\d", "I"], r"xx"], [r"a\d", [r"a\d", "I"]]):
                for fl in ([], ["m"]):
                    yield {"seam": "lib", "pos": pos, "keys": ks, "dkr": rl, "dkf": fl, "second": "none"}
    # CLI seam: anchoring separates prefix match from full match
    for pos in POSITIONS:
        for ks in KEYSETS:
            if len(ks) > (2 if tier == "quick" else 3):
                continue
            for rl in [[], [r"a\d"], [r"a"], [r"[ab]\d", r"xx"]] if tier == "quick" else regs:
                for fl in ([], ["m"], ["CamelField"], ["m,n"], ["m "]) if tier == "quick" else FIELD_LISTS:
                    yield {"seam": "cli", "pos": pos, "keys": ks, "dkr": rl, "dkf": fl, "second": "none"}


_VALS = [1, "v", 1.0, True]     # 1 == 1.0 == True in Python, three different JSON kinds


def _obj(ks):
    return {k: _VALS[i % 4] for i, k in enumerate(ks)}


def _samples(case):
    o = _obj(case["keys"])
    pos = case["pos"]
    wrap = {
        "field_m": lambda x: {"m": x, "zz": 1},
        "field_dict_field": lambda x: {"dict_field": x, "zz": 1},
        "field_camel": lambda x: {"CamelField": x, "zz": 1},
        # field names are arbitrary JSON keys: a comma or outer white space is part of the name
        "field_comma": lambda x: {"m,n": x, "m": {"xx": 1, "yy!": 2}, "zz": 1},
        "field_space": lambda x: {"m ": x, "m": {"xx": 1, "yy!": 2}, "zz": 1},
        "list_elem": lambda x: {"m": [x], "zz": 1},
        "dict_value": lambda x: {"m": {"a1": x, "a2": x}, "zz": 1},
        "top": lambda x: dict(x, zz=1),
    }[pos]
    out = [wrap(o)]
    if case["second"] == "other_object":
        out.append(wrap({"yy!": 1, "zz zz": [1]}) if pos != "top" else {"yy!": 1, "zz": 2})
    elif case["second"] == "empty_first":
        # an empty object at the same position arrives BEFORE the object under test
        out.insert(0, {"m": {}, "zz": 1} if pos == "dict_value" else (wrap({}) if pos != "top" else {"zz": 0}))
    elif case["second"] == "null":
        out.append(wrap(None) if pos not in ("top", "list_elem", "dict_value") else {"zz": 2})
    return out


def _rx(p):
    """a pattern spec is a string or [pattern, "I"] = compiled with re.IGNORECASE (library seam only)"""
    if isinstance(p, (list, tuple)):
        return re.compile(p[0], re.I if "I" in p[1] else 0)
    return re.compile(p)


def classify(o, direct, pats, full):
    if not o:
        return "mapping"
    if direct:
        return "mapping"
    for p in pats:
        rx = _rx(p)
        if all((rx.fullmatch(k) if full else rx.match(k)) for k in o):
            return "mapping"
    return "model"


def expected(samples, pats, dkf, full):
    """{position: {'mapping': [objs], 'model': [objs]}} by the documented rule"""
    out = {}

    def visit(v, pos, direct, top=False):
        if isinstance(v, dict):
            cls = "model" if top else classify(v, direct, pats, full)
            out.setdefault(pos, {"mapping": [], "model": []})[cls].append(v)
            if cls == "mapping":
                for val in v.values():
                    visit(val, pos + ("{}",), False)
            else:
                for k, val in v.items():
                    visit(val, pos + (k,), k in dkf)
        elif isinstance(v, list):
            for e in v:
                visit(e, pos + ("[]",), False)
    for s in samples:
        visit(s, (), False, top=True)
    return out


def _members(t):
    k = ir.kind(t)
    if k == "opt":
        return _members(t.type)
    if k == "union":
        out = []
        for m in t.types:
            out += _members(m)
        return out
    return [t]


def types_at(root, pos):
    cur = [root]
    for step in pos:
        nxt = []
        for t in cur:
            for m in _members(t):
                k = ir.kind(m)
                if step == "[]" and k == "list":
                    nxt.append(m.type)
                elif step == "{}" and k == "dict":
                    nxt.append(m.type)
                elif step not in ("[]", "{}") and k in ("ptr", "model") and step in ir.fields_of(m):
                    nxt.append(ir.fields_of(m)[step])
        cur = nxt
    out = []
    for t in cur:
        out += _members(t)
    return out


def judge_graph(root, samples, pats, dkf, full):
    found = []
    exp = expected(samples, pats, dkf, full)
    for pos, groups in exp.items():
        ms = types_at(root, pos)
        kinds = [ir.kind(m) for m in ms]
        dicts = [m for m in ms if ir.kind(m) == "dict"]
        ptrs = [m for m in ms if ir.kind(m) in ("ptr", "model")]
        p = "/".join(pos) or "<top>"
        if groups["mapping"]:
            if not dicts:
                found.append(("mapping_object_not_typed_as_dict", p, f"kinds={kinds} objs={groups['mapping'][:2]}"))
            else:
                for o in groups["mapping"]:
                    if not any(ir.admits(d, o) for d in dicts):
                        found.append(("dict_value_type_rejects_a_value", p, f"{[ir.type_shape(d) for d in dicts]} vs {o}"))
            if not groups["model"] and ptrs:
                found.append(("class_generated_for_mapping_object", p, f"kinds={kinds}"))
        if groups["model"]:
            if not ptrs:
                found.append(("model_object_not_typed_as_model", p, f"kinds={kinds} objs={groups['model'][:2]}"))
            if not groups["mapping"] and dicts:
                found.append(("model_object_typed_as_dict", p, f"kinds={kinds}"))
    return found, exp


def _run_cli(samples, dkr, dkf):
    """the real CLI in-process: returns the registry-equivalent observation = emitted pydantic module text"""
    import contextlib
    import io
    import sys
    from json_to_models.cli import Cli
    d = tempfile.mkdtemp(prefix="c13_")
    try:
        path = os.path.join(d, "in.json")
        with open(path, "w") as f:
            json.dump(samples, f)
        argv = ["-m", "Root", path, "-f", "pydantic", "--max-strings-literals", "0"]
        if dkr:
            argv += ["--dkr"] + dkr
        if dkf:
            argv += ["--dkf"] + dkf
        cli = Cli()
        old = sys.argv
        sys.argv = ["json2models"] + argv
        try:
            cli.parse_args(argv)
            # same objects run() builds; observed before rendering so the IR can be judged directly
            from json_to_models.generator import MetadataGenerator
            from json_to_models.registry import ModelRegistry
            text = cli.run()
        finally:
            sys.argv = old
        gen = MetadataGenerator(str_types_registry=pipeline.make_str_registry(), dict_keys_regex=cli.dict_keys_regex,
                                dict_keys_fields=cli.dict_keys_fields)
        reg = ModelRegistry(*cli.merge_policy)
        ptr = None
        for name, data in cli.models_data.items():
            ptr = reg.process_meta_data(gen.generate(*data), name)
        reg.merge_models(gen)
        reg.generate_names()
        return ptr, reg, text
    finally:
        import shutil
        shutil.rmtree(d, ignore_errors=True)


def execute(case):
    samples = _samples(case)
    shape = ["pos:" + case["pos"], "keys:" + "+".join(case["keys"])] + ["re:" + (p if isinstance(p, str) else p[0] + "/" + p[1]) for p in case["dkr"]] + ["dkf:" + f for f in case["dkf"]] \
        + ["second:" + case["second"]]
    full = case["seam"] == "cli"
    try:
        if case["seam"] == "lib":
            b = pipeline.build(samples, types=pipeline.DEFAULT_TYPES, dkr=[(_rx(p) if isinstance(p, list) else p) for p in case["dkr"]] or None,
                               dkf=case["dkf"] or None)
            root, reg, text = b.root, b.reg, None
        else:
            root, reg, text = _run_cli(samples, case["dkr"], case["dkf"])
    except Exception as e:
        site = core.exc_site(e)
        return {"obs": ["exc:" + site], "viol": [core.viol("generation_raises", case["seam"] + ":" + site, shape, f"{type(e).__name__}: {e}")],
                "outcome": "raises", "show": str(e)[:100]}
    found, exp = judge_graph(root, samples, case["dkr"], case["dkf"], full)
    viol = [core.viol(c, case["seam"], shape, f"at {p}: {d}; graph={ir.canon_graph([root])}") for c, p, d in found]
    if text is not None:
        # the emitted module must agree with the IR about how many classes exist
        n_cls = len(re.findall(r"^class \w+", text, flags=re.M))
        if n_cls != len(reg.models_map):
            viol.append(core.viol("cli_class_count_differs", "cli", shape, f"{n_cls} classes vs {len(reg.models_map)} models"))
    cg = repr(ir.canon_graph([root]))
    n_map = sum(len(g["mapping"]) for g in exp.values())
    n_mod = sum(len(g["model"]) for g in exp.values())
    return {"obs": [core.digest(cg)], "viol": viol, "outcome": f"mappings={min(n_map, 3)} models={min(n_mod, 4)}", "show": cg[:200],
            "nontrivial": core.digest([case["pos"], case["keys"], case["dkr"], case["dkf"], case["second"]]) if n_map and n_mod > 1 else None}


def run(tier, seed):
    r = core.Run(PROP, tier, seed)
    r.rule = ("all key sets of <=4 keys over 7 keys (+empty) x 6 positions x regex lists (<=2 of 5 patterns) x 6 field-name lists x second-sample kinds at "
              "the library seam; a sub-space at the CLI seam (anchored patterns); non-trivial = cases with at least one mapping object and "
              ">=2 model objects")
    r.bounds = {"tier": tier}
    r.assumptions = ["library seam uses re.match (unanchored) as documented for the constructor; CLI seam full match",
                     "CLI seam observes the IR by rebuilding generator/registry from the parsed Cli object exactly as Cli.run does, after "
                     "a real cli.run() whose class count must agree"]
    for case, res in core.pmap(execute, _cases(tier), chunksize=64, budget_s=240 if tier == "quick" else 1500):
        r.add(case, res)
    if core.pmap.capped:
        r.caps.append("wall budget hit")
    return r.finish(replay_fn=execute)
