"""C14 - a generation is independent of what the process did before (DESIGN.md section 4, C14).

Engine E5 (mc/forktree.py): every history of <=3 (quick) / <=4 (thorough) events over a 13-event
alphabet; each tree node is a forked copy of the process that reached its parent, so global state is
exactly what the real history left behind.  Oracle: each event's observation equals the observation of
the same event as a length-1 history (which is itself bound to a truly fresh `python -c` process)."""
import hashlib
import json
import os
import shutil
import subprocess
import sys
import tempfile

from mc import core, forktree, pipeline
from json_to_models.dynamic_typing import AbsoluteModelRef, register_datetime_classes
from json_to_models.generator import MetadataGenerator
from json_to_models.models.base import generate_code
from json_to_models.registry import ModelRegistry

PROP = "C14"

INPUTS = {
    "tree": [{"id": 1, "name": "x", "owner": {"login": "a", "site": {"url": "u", "class": 1}}, "tags": [{"t": "q", "owner-id": 2}],
              "list": {"type": "t", "dict": {"any": 1}}},
             {"id": 2, "name": "y", "owner": None, "tags": [], "list": {"type": "u", "dict": {"any": 2}}}],
    "nonascii": [{"имя": "a", "größe": {"élan": 1, "naïve-key": "x"}, "日本": [{"κλειδί": 2}]}],
    "pseudo": [{"a": "1", "b": "2020-01-01", "c": {"d": "12:30", "f": "true"}, "e": ["1.5"]}, {"a": "2", "b": None, "c": {"d": "13:30", "f": "false"}, "e": []}],
    "shared": [{"id": 1, "billing": {"street": "s", "geo": {"lat": 1.5, "lon": 2.5}}, "shipping": {"carrier": "c", "eta": 3, "geo": {"lat": 3.5, "lon": 4.5}},
                "kind": "x"}],
    "reserved": [{"field": 1, "attr": "x", "dataclass": True, "type": 2, "optional": None, "convert_strings": "1"}],
    # a plain type next to its own pseudo-type inside a list / under Optional / in a mapping (what a renderer could be tempted to fold)
    "mixed": [{"vals": [0.5, "1.5"], "n": 10, "w": [1, "2", None], "0items": [{"v": 1}], "config": {"debug": 1, "meta": {"x": 1}}, "9lives": {"k": 1}}, {"vals": [], "n": None, "w": []}, {"vals": [2.5], "n": "30", "w": ["x1"]}],
    # the same model twice with its keys in a different order (equal as a dict, same index in its own registry)
    "permA": [{"b": 1, "a": "x", "c": 1.5, "sub": {"z": 1, "y": "s"}}],
    "permB": [{"a": "x", "c": 1.5, "b": 1, "sub": {"y": "s", "z": 1}}],
    "headers": [{"url": "u", "headers": {"accept": "a", "host": "h"}, "n": "1"}, {"url": "v", "headers": {"accept": "b", "agent": "c"}, "n": "2"}],
    "literal": [{"kind": "a", "st": "x", "sub": {"mode": "on"}}, {"kind": "b", "st": "y", "sub": {"mode": "off"}}, {"kind": "c", "st": "x", "sub": {"mode": "on"}}],
}

# event -> spec
EVENTS = {
    "G_tree_pyd": ("G", "tree", "pydantic", "flat", {}, "default_registry"),
    "G_pseudo_attrs_nested_dt": ("G", "pseudo", "attrs", "nested", {}, "explicit_datetime"),
    "G_literal_dc_conv_ml0": ("G", "literal", "dataclasses", "flat", {"post_init_converters": True, "max_literals": 0}, "explicit"),
    "G_nonascii_pyd_nouni": ("G", "nonascii", "pydantic", "flat", {"convert_unicode": False}, "explicit"),
    "G_literal_pyd": ("G", "literal", "pydantic", "flat", {}, "explicit"),
    "G_nonascii_attrs_uni": ("G", "nonascii", "attrs", "nested", {"meta": True}, "explicit"),
    "G_literal_dc": ("G", "literal", "dataclasses", "flat", {}, "explicit"),
    "G_literal_dc_style_nolit": ("G", "literal", "dataclasses", "flat", {"types_style": "nolit"}, "explicit"),
    "G_pseudo_pyd": ("G", "pseudo", "pydantic", "flat", {}, "explicit"),
    "G_pseudo_pyd_style_noactual": ("G", "pseudo", "pydantic", "flat", {"types_style": "noactual"}, "explicit"),
    "G_pseudo_base_defaultreg": ("G", "pseudo", "base", "flat", {}, "default_registry"),
    "G_reserved_pyd": ("G", "reserved", "pydantic", "flat", {}, "explicit"),
    "G_reserved_base": ("G", "reserved", "base", "flat", {}, "explicit"),
    "G_pseudo_base_conv": ("G", "pseudo", "base", "flat", {"post_init_converters": True}, "explicit"),
    "G_pseudo_attrs_conv": ("G", "pseudo", "attrs", "flat", {"post_init_converters": True}, "explicit"),
    "G_shared_flat": ("G", "shared", "pydantic", "flat", {}, "explicit"),
    "X_shared_nested": ("X", "shared", "nested", None),
    "B_r1": ("B", "r1", "tree"),
    "B_r2": ("B", "r2", "nonascii"),
    "R_r1_pyd_flat": ("R", "r1", "pydantic", "flat", {}),
    "R_r1_attrs_nested": ("R", "r1", "attrs", "nested", {"meta": True}),
    "R_r1_dc_flat_ml0": ("R", "r1", "dataclasses", "flat", {"max_literals": 0}),
    "R_r2_pyd_flat": ("R", "r2", "pydantic", "flat", {"convert_unicode": False}),
    "R_r2_base_nested": ("R", "r2", "base", "nested", {"convert_unicode": False}),
    "B_r3": ("B", "r3", "mixed"),
    "R_r3_pyd_flat": ("R", "r3", "pydantic", "flat", {}),
    "R_r3_dc_flat": ("R", "r3", "dataclasses", "flat", {}),
    "R_r3_base_nested": ("R", "r3", "base", "nested", {}),
    "G_permA_dc": ("G", "permA", "dataclasses", "flat", {}, "explicit"),
    "G_permB_dc": ("G", "permB", "dataclasses", "flat", {}, "explicit"),
    "G_permB_pyd_nested": ("G", "permB", "pydantic", "nested", {}, "explicit"),
    "G_pseudo_pyd_style_noactual_int": ("G", "pseudo", "pydantic", "flat", {"types_style": "noactual_int"}, "explicit"),
    "G_headers_dkf": ("G", "headers", "pydantic", "flat", {"dkf": ["headers"]}, "explicit"),
    "G_headers_dkr": ("G", "headers", "dataclasses", "flat", {"dkr": ["^a.*", "^h.*"]}, "explicit"),
    "G_headers_plain": ("G", "headers", "pydantic", "flat", {}, "explicit"),
    "X_tree_nested": ("X", "tree", "nested", None),
    "X_r1_flat": ("X", None, "flat", "r1"),
}
QUICK_EVENTS = ["G_reserved_pyd", "G_reserved_base", "G_pseudo_base_conv", "G_pseudo_attrs_conv", "G_pseudo_base_defaultreg", "G_literal_dc", "G_literal_dc_style_nolit", "G_pseudo_pyd", "G_pseudo_pyd_style_noactual", "G_shared_flat", "X_shared_nested",
                "G_tree_pyd", "G_pseudo_attrs_nested_dt", "G_literal_dc_conv_ml0", "G_nonascii_pyd_nouni", "G_nonascii_attrs_uni", "B_r1", "B_r2",
                "R_r1_pyd_flat", "R_r1_attrs_nested", "R_r2_pyd_flat", "R_r2_base_nested", "X_tree_nested", "X_r1_flat",
                "G_pseudo_pyd_style_noactual_int", "G_headers_dkf", "G_headers_dkr", "G_headers_plain",
                "B_r3", "R_r3_pyd_flat", "R_r3_dc_flat", "R_r3_base_nested", "G_permA_dc", "G_permB_dc", "G_permB_pyd_nested"]

SHARED = {}       # registry name -> Built (state of THIS process; inherited by forked children)
EXPECTED = {}     # event -> observation as a length-1 history (R/X on shared registries: after their B)
ACTIVE = list(EVENTS)


class Boom(RuntimeError):
    pass


def _boom_generator():
    from json_to_models.models.pydantic import PydanticModelCodeGenerator
    calls = {"n": 0}

    class BoomGen(PydanticModelCodeGenerator):
        def generate(self, *a, **kw):
            calls["n"] += 1
            if calls["n"] >= 2:
                raise Boom("generator fails on the second class")
            return super().generate(*a, **kw)
    return BoomGen


def _build(inp, regkind="explicit", unicode=True, dkf=None, dkr=None):
    import copy
    samples = copy.deepcopy(INPUTS[inp])
    opts = {}
    if dkf is not None:
        opts["dict_keys_fields"] = list(dkf)
    if dkr is not None:
        opts["dict_keys_regex"] = list(dkr)
    if regkind == "default_registry":
        gen = MetadataGenerator(**opts)   # the process-global default string registry
    elif regkind == "explicit_datetime":
        gen = MetadataGenerator(str_types_registry=pipeline.make_str_registry(pipeline.ALL_TYPES), **opts)
    else:
        gen = MetadataGenerator(str_types_registry=pipeline.make_str_registry(), **opts)
    reg = ModelRegistry()
    reg.process_meta_data(gen.generate(*samples), model_name="Root")
    reg.merge_models(gen)
    reg.generate_names()
    return reg


def _render(reg, fw, layout, kw):
    kw = dict(kw)
    style = kw.pop("types_style", None)
    if style == "nolit":
        from json_to_models.dynamic_typing import StringLiteral
        kw["types_style"] = {StringLiteral: {StringLiteral.TypeStyle.use_literals: False}}
    elif style == "noactual_int":
        # a style that holds the wildcard entry (the generator's own default) AND a more specific one
        from json_to_models.dynamic_typing import IntString, StringSerializable
        kw["types_style"] = {IntString: {StringSerializable.TypeStyle.use_actual_type: False}}
    elif style == "noactual":
        from json_to_models.dynamic_typing import StringSerializable
        kw["types_style"] = {StringSerializable: {StringSerializable.TypeStyle.use_actual_type: False}}
    return pipeline.render(reg, fw, layout, **kw)


def do_event(ev):
    """perform the event on this process's state; returns text or 'exc:<Type>'"""
    spec = EVENTS[ev]
    try:
        if spec[0] == "G":
            _, inp, fw, layout, kw, regkind = spec
            kw = dict(kw)
            return _render(_build(inp, regkind, dkf=kw.pop("dkf", None), dkr=kw.pop("dkr", None)), fw, layout, kw)
        if spec[0] == "B":
            _, r, inp = spec
            SHARED[r] = _build(inp)
            return "built:" + ",".join(sorted(m.name for m in SHARED[r].models))
        if spec[0] == "R":
            _, r, fw, layout, kw = spec
            return _render(SHARED[r], fw, layout, kw)
        if spec[0] == "X":
            _, inp, layout, r = spec
            reg = SHARED[r] if r else _build(inp)
            structure = pipeline.LAYOUTS[layout](reg.models_map)
            return generate_code(structure, _boom_generator(), class_generator_kwargs={})
    except Boom:
        return "exc:Boom"
    except Exception as e:
        return f"exc:{type(e).__name__}:{core.exc_site(e)}"
    raise ValueError(ev)


def solo(ev):
    """the event as a length-1 history (for R / X-on-shared: preceded by the B of its registry)"""
    spec = EVENTS[ev]
    r = spec[1] if spec[0] == "R" else (spec[3] if spec[0] == "X" else None)
    if r:
        do_event("B_" + r)
    return do_event(ev)


def enabled(history):
    built = {EVENTS[e][1] for e in history if EVENTS[e][0] == "B"}
    out = []
    for ev in ACTIVE:
        spec = EVENTS[ev]
        need = spec[1] if spec[0] == "R" else (spec[3] if spec[0] == "X" else None)
        if need and need not in built:
            continue
        out.append(ev)
    return out


def state_digest():
    """observation aid only (DESIGN 2.5): canonical digest of module-/class-level mutable state of json_to_models.*"""
    import types
    parts = []
    for name, mod in sorted(sys.modules.items()):
        if not name.startswith("json_to_models") or mod is None:
            continue
        for k, v in sorted(vars(mod).items()):
            if k.startswith("__"):
                continue
            if isinstance(v, (dict, list, set, frozenset)) and not isinstance(v, type):
                parts.append(f"{name}.{k}={_canon(v)}")
            elif isinstance(v, type) and getattr(v, "__module__", "") == name:
                for ck, cv in sorted(vars(v).items()):
                    if ck.startswith("__"):
                        continue
                    if isinstance(cv, (dict, list, set, frozenset)):
                        parts.append(f"{name}.{k}.{ck}={_canon(cv)}")
            elif not isinstance(v, (types.ModuleType, types.FunctionType, type)) and hasattr(v, "__dict__") and \
                    type(v).__module__.startswith("json_to_models"):
                parts.append(f"{name}.{k}={_canon(vars(v))}")
    try:
        parts.append("ctx=" + repr(getattr(AbsoluteModelRef.Context.data, "context", "<unset>")))
    except Exception as e:
        parts.append("ctx=err:" + type(e).__name__)
    for fn_mod in ("json_to_models.utils",):
        mod = sys.modules.get(fn_mod)
        for k, v in sorted(vars(mod).items()):
            if isinstance(v, types.FunctionType) and v.__closure__:
                for cell in v.__closure__:
                    try:
                        c = cell.cell_contents
                    except ValueError:
                        continue
                    if isinstance(c, (dict, list, set)):
                        parts.append(f"{fn_mod}.{k}.closure={_canon(c)}")
    return hashlib.sha1("\n".join(parts).encode("utf8", "replace")).hexdigest()[:12]


def _canon(v, depth=0):
    if depth > 4:
        return "..."
    if isinstance(v, dict):
        return "{" + ",".join(sorted(f"{_canon(k, depth + 1)}:{_canon(x, depth + 1)}" for k, x in v.items())) + "}"
    if isinstance(v, (set, frozenset)):
        return "{" + ",".join(sorted(_canon(x, depth + 1) for x in v)) + "}"
    if isinstance(v, (list, tuple)):
        return "[" + ",".join(_canon(x, depth + 1) for x in v) + "]"
    if isinstance(v, (str, int, float, bool, type(None))):
        return repr(v)
    if isinstance(v, type):
        return v.__name__
    return type(v).__name__


def perform(ev, history):
    out = do_event(ev)
    exp = EXPECTED[ev]
    ok = out == exp
    obs = {"ok": ok, "out": core.digest(out), "state": state_digest()}
    if not ok:
        obs["got"] = out[-600:]
        obs["want"] = exp[-600:]
        # first differing line
        a, b = out.splitlines(), exp.splitlines()
        for i in range(max(len(a), len(b))):
            la = a[i] if i < len(a) else "<eof>"
            lb = b[i] if i < len(b) else "<eof>"
            if la != lb:
                obs["diff"] = f"line {i + 1}: got {la!r} want {lb!r}"
                break
    return obs


def _fresh_process_solo(ev):
    code = ("import sys; sys.path.insert(0, %r); from props import c14; sys.stdout.write(c14.solo(%r))" % (core.VERIF, ev))
    env = dict(os.environ, PYTHONHASHSEED="0")
    p = subprocess.run([sys.executable, "-c", code], capture_output=True, text=True, env=env, cwd=core.VERIF, timeout=120)
    if p.returncode != 0:
        raise core.HarnessError(f"fresh-process solo of {ev} failed: {p.stderr[-500:]}")
    return p.stdout


def _fork_solo(ev):
    r, w = os.pipe()
    pid = os.fork()
    if pid == 0:
        try:
            os.close(r)
            data = solo(ev).encode("utf8")
            with os.fdopen(w, "wb") as f:
                f.write(data)
        finally:
            os._exit(0)
    os.close(w)
    with os.fdopen(r, "rb") as f:
        data = f.read().decode("utf8")
    os.waitpid(pid, 0)
    return data


def execute(case):
    """replay of one history in a forked child of a pristine process"""
    global ACTIVE
    ACTIVE = list(EVENTS)
    for ev in set(case["h"]):
        if ev not in EXPECTED:
            EXPECTED[ev] = _fork_solo(ev)
    r, w = os.pipe()
    pid = os.fork()
    if pid == 0:
        try:
            os.close(r)
            obs = None
            for i, ev in enumerate(case["h"]):
                obs = perform(ev, case["h"][:i])
            with os.fdopen(w, "w") as f:
                json.dump(obs, f)
        finally:
            os._exit(0)
    os.close(w)
    with os.fdopen(r) as f:
        obs = json.load(f)
    os.waitpid(pid, 0)
    return _judge(case["h"], obs)


def _judge(h, obs):
    viol = []
    if not obs["ok"]:
        viol.append(core.viol("history_changes_result", h[-1], sorted(set(h[:-1])),
                              f"after {h[:-1]} the event {h[-1]} differs from its solo run: {obs.get('diff')} || got ...{obs.get('got', '')[-200:]!r}"))
    return {"obs": [obs["state"] + ":" + obs["out"]], "viol": viol, "outcome": "same" if obs["ok"] else "differs", "show": obs.get("diff", "ok"),
            "nontrivial": "/".join(h) if len(h) > 1 else None}


def run(tier, seed):
    global ACTIVE
    r = core.Run(PROP, tier, seed)
    ACTIVE = QUICK_EVENTS if tier == "quick" else list(EVENTS)
    depth = 3 if tier == "quick" else 4
    r.rule = (f"E5 fork tree: all histories of <= {depth} events over {len(ACTIVE)} events (generate x4-5, build shared registry x2, render "
              "shared registry x4-5, failing generation x2; render/fail events enabled once their registry is built); state = (global-state "
              "digest, output); non-trivial = histories of length >= 2")
    r.bounds = {"tier": tier, "depth": depth, "events": ACTIVE}
    r.assumptions = ["unicode-conversion option fixed per shared registry; nested layout only on tree-shaped inputs (statement scope)",
                     "CLI runs are not events (the statement scopes global-registry mutation to the CLI); library events using the default registry are"]
    # length-1 observations in fork-pristine children, bound to truly fresh processes
    from concurrent.futures import ThreadPoolExecutor
    for ev in ACTIVE:
        EXPECTED[ev] = _fork_solo(ev)
    with ThreadPoolExecutor(8) as ex:
        fresh = dict(zip(ACTIVE, ex.map(_fresh_process_solo, ACTIVE)))
    bound = 0
    for ev in ACTIVE:
        bound += 1
        if fresh[ev] != EXPECTED[ev]:
            r.raw_violations.append(({"h": [ev], "binding": True}, core.viol("fork_pristine_differs_from_fresh_process", ev, [],
                                     "length-1 history in a forked child of the warmed-up parent differs from a fresh python -c process")))
    r.extra["solo_outputs_bound_to_fresh_processes"] = bound
    out_dir = tempfile.mkdtemp(prefix="c14_")
    try:
        forktree.explore(ACTIVE, enabled, perform, depth, out_dir, nproc=core.NPROC)
        nodes, errors = forktree.read_results(out_dir)
    finally:
        shutil.rmtree(out_dir, ignore_errors=True)
    if errors:
        raise core.HarnessError("fork tree errors: " + errors[0][-800:])
    for n in nodes:
        r.add({"h": n["h"]}, _judge(n["h"], n["obs"]))
    r.extra["tree_nodes"] = len(nodes)
    return r.finish(replay_fn=lambda case: execute(case) if not case.get("binding") else {"viol": [
        core.viol("fork_pristine_differs_from_fresh_process", case["h"][0], [], "")] if _fresh_process_solo(case["h"][0]) != _fork_solo(case["h"][0]) else []})
