"""C06 - output is a deterministic function of inputs and options (DESIGN.md section 4, C06).

Two engines.
E3 (model-checking step): json_to_models is imported through an AST transformer (mc/vset.py) that turns
   every set/frozenset construction into a set whose iteration order is chosen by the explorer; all
   iteration orders up to d deviations from insertion order are executed; every execution must emit
   byte-identical code.  A divergence found here is only a candidate.
E4 (deciding alarms): real, uninstrumented runs in fresh processes for every input in scope x
   PYTHONHASHSEED in 0..K-1; a VIOLATION is reported only when two real processes produced different
   text for the same input and options (the replay artefact is the pair of seeds).  E3 candidates that no
   real seed reproduces are recorded as unconfirmed_model_divergence and do not fail the run."""
import hashlib
import itertools
import json
import os
import subprocess
import sys
import tempfile
import shutil

from mc import alphabet as A
from mc import clidrv, core, pipeline

PROP = "C06"
FWS = ["base", "pydantic", "sqlmodel", "attrs", "dataclasses"]
LIT_POOL = ["b", "a", "B", "A", "get", "GET", "zz", "é", "Z", "10", "9x"]


def inputs(tier):
    """[(key, samples, dkr)] - graph inputs (merge groups, parent choice, name parts), literal sets, multi-field objects"""
    out = []
    if tier == "quick":
        specs = list(A.graph_specs(3, wrappers=("plain", "list")))
    else:
        specs = list(A.graph_specs(3)) + [g for g in A.graph_specs(4, payloads=("P1", "P2", "P3"), wrappers=("plain", "list")) if A.graph_size(g) == 4]
    for g in specs:
        out.append(("G" + A.graph_name(g), A.graph_samples(g), [r"k\d"]))
    sib = list(A.sibling_graph_specs(child_payloads=("P3", "P3f", "P4", "P1")))
    for g in sib if tier != "quick" else sib[::5]:
        out.append(("G" + A.graph_name(g), A.graph_samples(g), [r"k\d"]))
    # two recursive models at once (the root merges with one child, another child merges with its own child under a loose policy):
    # the layout code then has to choose a parent for a model whose parents are itself and the root
    for rp in ("P1", "P2"):
        for w1 in ("plain", "list"):
            for w2 in ("plain", "list"):
                for w3 in ("plain", "list"):
                    for g in ([rp, [["c", w1, ["P1", []]], ["d", w2, ["P3", [["c", w3, ["P3", []]]]]]]],
                              [rp, [["c", w2, ["P3", [["c", w3, ["P3", []]]]]], ["d", w1, ["P1", []]]]]):
                        key = "G" + A.graph_name(g)
                        if not any(k == key for k, _, _ in out):
                            out.append((key, A.graph_samples(g), [r"k\d"]))
    # wide merge groups: k similar models hanging off one root (the group-iteration-order shape)
    for k in (2, 3, 4, 5):
        o = {}
        for i in range(k):
            o[f"m{i}"] = {"x": 1, "y": 2, "z": 3, "u": 4, "v": 5, f"extra{i}": i}
        out.append((f"wide{k}", [o], None))
        out.append((f"wide{k}_list", [{"items": [v for v in o.values()], "first": o["m0"]}], None))
    # members of a merge group that are equal as dicts but written in a different key order
    for k in (2, 3):
        keys = ["lat", "lon", "alt", "acc"]
        o = {f"p{i}": {kk: 1.5 for kk in keys[i:] + keys[:i]} for i in range(k)}
        out.append((f"rotated{k}", [o], None))
        out.append((f"rotated{k}_rev", [{f"p{i}": {kk: 1.5 for kk in (keys if i % 2 == 0 else keys[::-1])} for i in range(k)}], None))
    # overlapping similarity (a chain a~b~c with a not similar to c) next to a second, unrelated merge group
    f7 = {f"f{i}": i for i in range(7)}
    f10 = {f"f{i}": i for i in range(10)}
    f14 = {f"f{i}": i for i in range(14)}
    out.append(("chain_and_pair", [{"summary": f7, "detail": f10, "full": f14, "start": {"u": 1, "v": 2, "w": 3}, "end": {"u": 4, "v": 5, "w": 6}}], None))
    out.append(("two_chains", [{"a0": f7, "a1": f10, "a2": f14, "b0": {f"g{i}": i for i in range(7)}, "b1": {f"g{i}": i for i in range(10)},
                                "b2": {f"g{i}": i for i in range(14)}}], None))
    out.append(("permuted_variants", [{"items": [{"a": 1, "b": 2}, {"c": "x"}], "m": {"k1": {"a": 1, "b": 2}, "k2": {"c": 1}}},
                                      {"items": [{"b": 2, "a": 1}, {"c": "y"}], "m": {"k1": {"b": 2, "a": 1}, "k2": {"c": 2}}}], [r"k\d"]))
    out.append(("permuted_equal", [{"items": [{"a": 1, "b": 2, "c": 3}, {"z": "x", "y": 1}], "m": {"k1": {"p": 1, "q": 2}, "k2": {"r": "s"}}},
                                   {"items": [{"c": 3, "b": 2, "a": 1}, {"y": 1, "z": "x"}], "m": {"k1": {"q": 2, "p": 1}, "k2": {"r": "s"}}},
                                   {"items": [{"b": 2, "a": 1, "c": 3}, {"z": "x", "y": 1}], "m": {"k1": {"p": 1, "q": 2}, "k2": {"r": "s"}}}], [r"k\d"]))
    out.append(("permuted_variants3", [{"items": [{"a": 1, "b": 2, "c": 3}, 5, {"z": "x"}]}, {"items": [{"c": 3, "b": 2, "a": 1}, {"z": "y"}, 5]},
                                       {"items": [5, {"b": 2, "c": 3, "a": 1}, {"z": "x"}]}], None))
    for n in range(1, len(LIT_POOL) + 1):
        out.append((f"lit{n}", [{"a": s, "b": [s]} for s in LIT_POOL[:n]], None))
    # several fields that go missing together / appear late
    out.append(("missing_together", [{"id": 1, "nick": "n", "phone": "p", "mail": "m"}, {"id": 2}, {"id": 3, "nick": "k", "phone": "q", "mail": "z"}], None))
    out.append(("late_fields", [{"id": 1}, {"id": 2, "b": 1, "a": 2, "c": 3}, {"id": 3, "zz": 1, "aa": 2}], None))
    out.append(("imports", [{"d": "2020-01-01", "t": "12:30", "dt": "2020-01-01T10:00:00", "i": "1", "f": "1.5", "b": "true", "l": [1], "o": None, "m": {"k1": 1},
                             "u": [1, "x"]}], [r"k\d"]))
    # user-defined pseudo-types whose replacement relation is a chain without the transitive pair (resolve must reach a fixed point
    # whatever order the relation is stored in); one field hits all three types
    out.append(("chain_registry", {"__types__": list(pipeline.CHAIN_TYPES), "__roots__": {"Root": [{"mask": "0101", "n": "7"}, {"mask": "0777", "n": "ff"},
                                                                                                {"mask": "ff", "n": "1"}, {"mask": "10", "n": "0"}]}}, None))
    # several root models that share one nested model (3-5 roots): nested layout has to place the shared class relative to all its roots
    owner = {"login": "x", "id": 1, "url": "u"}
    for k in (3, 4, 5):
        names = ["Repo", "Issue", "Gist", "Commit", "Pull"][:k]
        out.append((f"shared_by_{k}_roots", {"__roots__": {n: [{"owner": dict(owner), f"{n.lower()}_id": 1, "title": "t" * (i + 1), f"f{i}": i, f"g{i}": [i]}]
                                                          for i, n in enumerate(names)}}, None))
    # root models whose given names differ only by case and whose fields are similar enough to merge (the merged name is built from both)
    out.append(("case_clash_roots", {"__roots__": {"item": [{"a": 1, "b": 2, "c": 3}], "Item": [{"a": 1, "b": 2, "c": 3, "d": 4}]}}, None))
    out.append(("case_clash_roots3", {"__roots__": {"user": [{"a": 1, "b": 2, "c": 3}], "User": [{"a": 1, "b": 2, "c": 3, "d": 4}],
                                                     "USER": [{"a": 1, "b": 2, "c": 3, "e": 4}], "admin_user": [{"a": 1, "b": 2, "c": 3, "d": 4, "e": 5}]}}, None))
    # a model shared by several roots, one of which is itself a merge product registered after the shared model, next to an
    # unrelated root that is placed earlier (nested layout: the shared class is inserted before whichever of its roots is placed)
    out.append(("shared_by_merged_root", {"__roots__": {
        "Weather": [{"station": "north", "temperature": 21.5, "humidity": 40}],
        "Order": [{"order_id": 1, "customer": "first", "item": {"sku": 1, "qty": 2}}],
        "InvoiceV1": [{"invoice_id": 1, "title": "t", "paid": True, "item": {"sku": 1, "qty": 2}}],
        "InvoiceV2": [{"invoice_id": 2, "title": "u", "paid": False, "item": {"sku": 5, "qty": 1}}]}}, None))
    out.append(("shared_by_merged_root2", {"__roots__": {
        "A0": [{"z": 1, "y": "s"}], "A1": [{"w": [1], "v": None}],
        "B1": [{"k1x": 1, "t": "t", "p": True, "it": {"s": 1, "q": 2}}], "B2": [{"k1x": 2, "t": "u", "p": False, "it": {"s": 5, "q": 1}}],
        "C": [{"o": 1, "c": "f", "it": {"s": 1, "q": 2}}], "D": [{"dd": 1, "it": {"s": 3, "q": 4}}]}}, None))
    out.append(("names", [{"author": {"n": 1, "x": 2}, "editor": {"n": 2, "x": 3}, "owner_user": {"n": 3, "x": 1}, "users": [{"n": 1, "x": 9}]}], None))
    return out


def configs(tier):
    out = []
    for fw in FWS:
        for layout in ("flat", "nested"):
            merges = ("default",) if tier == "quick" and fw not in ("pydantic", "dataclasses") else \
                (("default", "exact") if tier == "quick" else ("default", "exact", "percent_50"))
            for merge in merges:
                out.append((fw, layout, merge))
    if tier == "quick":
        # a loose merge policy makes recursive model graphs (a model merged with its own child): parent choice during layout
        out += [("base", "flat", "percent_50"), ("base", "nested", "percent_50")]
    return out


def build_input(samples, dkr, merge):
    """fresh pipeline for one input (single root, or {"__roots__": {name: samples}, "__types__": registry contents})"""
    samples = json.loads(json.dumps(samples))
    if isinstance(samples, dict) and "__roots__" in samples:
        return pipeline.build_roots(samples["__roots__"], types=tuple(samples.get("__types__", pipeline.ALL_TYPES)), dkr=dkr, merge=merge)
    return pipeline.build(samples, types=pipeline.ALL_TYPES, dkr=dkr, merge=merge)


def batch(tier):
    """digest of every (input, configuration) in this process - run under one PYTHONHASHSEED"""
    res = {}
    types = pipeline.ALL_TYPES
    for key, samples, dkr in inputs(tier):
        for fw, layout, merge in configs(tier):
            if key.startswith("lit") and (layout == "nested" or merge != "default"):
                continue
            try:
                b = build_input(samples, dkr, merge)
                text = pipeline.render(b.reg, fw, layout)
            except Exception as e:
                text = f"exc:{type(e).__name__}:{core.exc_site(e)}"
            res[f"{key}|{fw}|{layout}|{merge}"] = hashlib.sha1(text.encode("utf8", "surrogatepass")).hexdigest()[:16]
    return res


def _layout_prelude(seed):
    """"fresh processes" differ in more than the hash seed: object addresses (the hash of classes, pointers and every other object
    without __hash__) depend on what was allocated before.  Every E4 process therefore starts with a seed-dependent amount of live
    and freed allocations BEFORE the library is imported; replays of a seed use the same prelude."""
    n = int(seed) % 89
    return ("_n = %d; _keep = [type('P%%d' %% i, (), {}) for i in range(_n * 3)]; _holes = [bytearray(48 + 8 * (i %% 60)) for i in range(_n * 300)]; "
            "del _holes[::2]; _objs = [object() for _ in range(_n * 7)]; del _objs[1::3]; " % n)


def _no_aslr():
    """preexec hook: switch address-space randomisation off for the child (personality ADDR_NO_RANDOMIZE), so that the object
    addresses of an E4 process are a function of its seed-dependent prelude and a recorded divergence replays exactly"""
    try:
        import ctypes
        ctypes.CDLL(None).personality(0x0040000)
    except Exception:
        pass


def _run_batch(args):
    tier, seed = args
    code = (_layout_prelude(seed) + "import sys, json; sys.path.insert(0, %r); from props import c06; json.dump(c06.batch(%r), sys.stdout)" % (core.VERIF, tier))
    env = dict(os.environ, PYTHONHASHSEED=str(seed))
    p = subprocess.run([sys.executable, "-c", code], capture_output=True, text=True, env=env, cwd=core.VERIF, timeout=1800, preexec_fn=_no_aslr)
    if p.returncode != 0:
        raise core.HarnessError(f"batch under seed {seed} failed: {p.stderr[-600:]}")
    return seed, json.loads(p.stdout)


def text_under_seed(key, fw, layout, merge, seed, tier):
    code = (_layout_prelude(seed) + "import sys, json; sys.path.insert(0, %r); from props import c06; sys.stdout.write(c06.one(%r, %r, %r, %r, %r))"
            % (core.VERIF, key, fw, layout, merge, tier))
    env = dict(os.environ, PYTHONHASHSEED=str(seed))
    p = subprocess.run([sys.executable, "-c", code], capture_output=True, text=True, env=env, cwd=core.VERIF, timeout=300, preexec_fn=_no_aslr)
    if p.returncode != 0:
        raise core.HarnessError(p.stderr[-400:])
    return p.stdout


def one(key, fw, layout, merge, tier):
    for k, samples, dkr in inputs(tier):
        if k == key:
            b = build_input(samples, dkr, merge)
            return pipeline.render(b.reg, fw, layout)
    raise KeyError(key)


# ---- CLI seam ----------------------------------------------------------------------------------
CLI_INPUTS = ["wide4", "wide3_list", "lit6", "missing_together", "names", "imports", "<glob>", "<yaml_set>", "<case_clash>"]


GLOB_FILES = [{"id": 1, "a": "x"}, [{"id": 2, "b": [1]}, {"id": 3, "c": {"d": 1}}], {"id": "4", "e": None, "a": 5}, {"zz": 1.5, "b": ["s"]}]


def _cli_case(args):
    key, fw, seed, tier, out_mode = args
    d = tempfile.mkdtemp(prefix="c06_")
    try:
        if key == "<glob>":
            # several heterogeneous files matched by one pattern: whatever order the CLI uses, it must not depend on the hash seed
            for i, content in enumerate(GLOB_FILES):
                with open(os.path.join(d, f"part_{'abcd'[i]}{i}.json"), "w") as f:
                    json.dump(content, f)
            argv = ["-m", "Root", "part_*.json", "-f", fw] + (["-o", "out.py"] if out_mode == "file" else [])
        elif key == "<yaml_set>":
            # YAML-only collection types (a set mixes string and non-string members): rejected or accepted, but the same in every process
            with open(os.path.join(d, "in.yaml"), "w") as f:
                f.write("- name: x\n  flags: !!set {debug, verbose, true, 5}\n- name: y\n  flags: !!set {quiet}\n")
            argv = ["-i", "yaml", "-m", "Root", "in.yaml", "-f", fw] + (["-o", "out.py"] if out_mode == "file" else [])
        elif key == "<case_clash>":
            for nm, content in (("a.json", {"a": 1, "b": 2, "c": 3}), ("b.json", {"a": 1, "b": 2, "c": 3, "d": 4})):
                with open(os.path.join(d, nm), "w") as f:
                    json.dump(content, f)
            argv = ["-m", "item", "a.json", "-m", "Item", "b.json", "-f", fw] + (["-o", "out.py"] if out_mode == "file" else [])
        else:
            samples = next(s for k, s, _ in inputs(tier) if k == key)
            with open(os.path.join(d, "in.json"), "w") as f:
                json.dump(samples, f)
            argv = ["-m", "Root", "in.json", "-f", fw, "--datetime"] + (["-o", "out.py"] if out_mode == "file" else [])
        st, so, se = clidrv.run_subprocess(argv, d, hashseed=seed)
        if st != 0:
            return args, "exit:%d" % st
        text = so if out_mode == "stdout" else open(os.path.join(d, "out.py"), encoding="utf8").read()
        return args, clidrv.strip_timestamp(text)
    finally:
        shutil.rmtree(d, ignore_errors=True)


def execute(case):
    """replay: re-run the two seeds of a recorded divergence in fresh processes"""
    if case.get("seam") == "cli":
        a = _cli_case((case["input"], case["fw"], case["seeds"][0], case["tier"], case["out"]))[1]
        b = _cli_case((case["input"], case["fw"], case["seeds"][1], case["tier"], case["out"]))[1]
    else:
        a = text_under_seed(case["input"], case["fw"], case["layout"], case["merge"], case["seeds"][0], case["tier"])
        b = text_under_seed(case["input"], case["fw"], case["layout"], case["merge"], case["seeds"][1], case["tier"])
    viol = []
    if a != b:
        viol.append(_viol(case, a, b))
    return {"viol": viol, "show": "differs" if a != b else "same"}


def _shape_of(key):
    if key.startswith("G"):
        return ["graph:" + key]
    return ["input:" + key]


def _viol(case, a, b):
    la, lb = a.splitlines(), b.splitlines()
    diff = next((f"line {i + 1}: seed {case['seeds'][0]}: {x!r} / seed {case['seeds'][1]}: {y!r}" for i, (x, y) in
                 enumerate(itertools.zip_longest(la, lb, fillvalue="<eof>")) if x != y), "?")
    fam = "pydantic" if case["fw"] == "sqlmodel" else case["fw"]
    site = "cli" if case.get("seam") == "cli" else "library"
    return core.viol("output_differs_between_hash_seeds", site, _shape_of(case["input"]), f"[{fam}/{case.get('layout', 'flat')}/{case.get('merge', 'default')}] {diff}")


def run(tier, seed):
    r = core.Run(PROP, tier, seed)
    K = 16 if tier == "quick" else 64
    seeds = list(range(K)) + [1000 + (seed * 7919 + i) % 100000 for i in range(2 if tier == "quick" else 8)]
    r.rule = (f"E4: {len(inputs(tier))} inputs x {len(configs(tier))} configurations in one fresh process per PYTHONHASHSEED ({len(seeds)} seeds); CLI "
              f"seam: {len(CLI_INPUTS)} inputs x 3 frameworks x stdout/-o as one-shot `python -m json_to_models` processes per seed; E3: all "
              "single-site set-order deviations (all permutations for <=4 elements) on the instrumented library, pairs of deviations thorough; "
              "state = distinct output text per (input, configuration); non-trivial = inputs with >= 2 models or a Literal")
    r.bounds = {"tier": tier, "seeds": len(seeds)}
    r.assumptions = ["an E3 divergence alarms only when two real seeds reproduce two different outputs (otherwise unconfirmed_model_divergence)",
                     "third-party packages are not instrumented; they are only seen through real seeds"]
    # ---------------- E4, library seam --------------------------------------------------------
    results = {}
    for (t, s), res in core.pmap(_run_batch, [(tier, s) for s in seeds], chunksize=1, nproc=min(core.NPROC, len(seeds))):
        results[s] = res[1]
    keys = sorted(results[seeds[0]])
    n_div = 0
    divergent_keys, reported = set(), set()
    for k in keys:
        by_digest = {}
        for s in seeds:
            by_digest.setdefault(results[s].get(k), []).append(s)
        key, fw, layout, merge = k.split("|")
        r.evaluations += len(seeds)
        r.executions += len(seeds)
        r.transitions += len(seeds)
        for dg in by_digest:
            r.states.add(k + ":" + str(dg))
        if not key.startswith("lit1") and not key == "Gp":
            r.nontrivial.add(k)
        if len(by_digest) > 1:
            n_div += 1
            divergent_keys.add(k)
            fam = "pydantic" if fw == "sqlmodel" else fw
            if (key, fam) not in reported and len(reported) < 40:
                reported.add((key, fam))
                groups = sorted(by_digest.values(), key=lambda v: v[0])
                case = {"input": key, "fw": fw, "layout": layout, "merge": merge, "seeds": [groups[0][0], groups[1][0]], "tier": tier}
                a = text_under_seed(key, fw, layout, merge, case["seeds"][0], tier)
                b = text_under_seed(key, fw, layout, merge, case["seeds"][1], tier)
                if a != b:
                    r.raw_violations.append((case, _viol(case, a, b)))
        if len(r.samples) < 4 and k.startswith(("wide4|pydantic|flat", "lit6|dataclasses", "names|attrs|nested", "missing_together|base|flat")):
            r.samples.append({"case": k, "observed": {str(d): v for d, v in by_digest.items()}})
    r.extra["library_seam_divergent_configurations"] = n_div
    # ---------------- E4, CLI seam -------------------------------------------------------------
    cli_seeds = seeds[:8] if tier == "quick" else seeds[:24]
    cli_cases = [(k, fw, s, tier, om) for k in CLI_INPUTS for fw in ("pydantic", "attrs", "dataclasses") for om in ("stdout", "file") for s in cli_seeds]
    got = {}
    for args, (a2, text) in core.pmap(_cli_case, cli_cases, chunksize=2):
        got.setdefault((args[0], args[1], args[4]), {}).setdefault(text, []).append(args[2])
        r.evaluations += 1
        r.executions += 1
        r.transitions += 1
    for (k, fw, om), variants in got.items():
        r.states.add(f"cli:{k}:{fw}:{om}:{len(variants)}")
        if len(variants) > 1:
            groups = sorted(variants.values(), key=lambda v: v[0])
            texts = {tuple(v): t for t, v in variants.items()}
            case = {"seam": "cli", "input": k, "fw": fw, "out": om, "seeds": [groups[0][0], groups[1][0]], "tier": tier}
            r.raw_violations.append((case, _viol(case, texts[tuple(groups[0])], texts[tuple(groups[1])])))
    # ---------------- E3, owned set order ---------------------------------------------------------
    try:
        from props import c06_e3
        e3 = c06_e3.explore(tier)
    except Exception as e:   # the model-checking step must not turn into a verdict by failing
        raise
    r.extra["e3"] = e3["summary"]
    r.evaluations += e3["executions"]
    r.executions += e3["executions"]
    r.transitions += e3["executions"]
    for st in e3["states"]:
        r.states.add("e3:" + st)
    # E3 candidates alarm only if real seeds produced different text for the same (input, configuration): the E4 batch above already
    # ran exactly these inputs/configurations under every seed, so its verdict is reused (no second search).
    unconfirmed = []
    confirmed = 0
    for cand in e3["divergences"]:
        k = f"{cand['input']}|{cand['fw']}|{cand['layout']}|{cand['merge']}"
        if k in divergent_keys:
            confirmed += 1
        else:
            unconfirmed.append(cand)
    r.extra["e3_candidates_confirmed_by_real_seeds"] = confirmed
    r.extra["unconfirmed_model_divergence"] = unconfirmed[:20]
    r.extra["unconfirmed_model_divergence_count"] = len(unconfirmed)
    if not r.samples:
        r.samples.append({"case": keys[0], "observed": "one digest over all seeds"})
    return r.finish(replay_fn=execute)
