"""C08 - type simplification reaches a stable normal form (DESIGN.md section 4, C08).

Engine E1 (history-tree explorer) over JSON values: every operand reaches `optimize_type` through
the real `_detect_type` / `merge_field_sets`, so every explored IR type is an *inferred* type.
Oracle: ir.nf_violations on the result + a second optimisation pass (in place, as merge_models does)
must not raise and must leave the canonical form unchanged."""
import itertools

from mc import alphabet as A
from mc import core, ir, pipeline

PROP = "C08"


def _cases(tier):
    vals = A.VALUE_NAMES
    atoms = A.ATOM_NAMES
    # mode 'samples': one field observed with the values in order (merge_field_sets path)
    # mode 'list'   : one list value holding the values (DUnion construction path)
    if tier == "quick":
        for h in A.histories(vals + [A.ABSENT], 3):
            yield {"mode": "samples", "h": h}
        for h in A.histories(vals, 2, 2):
            yield {"mode": "list", "h": h}
        for h in itertools.combinations_with_replacement(vals, 3):
            yield {"mode": "list", "h": list(h)}
    else:
        for h in A.histories(vals + [A.ABSENT], 3):
            yield {"mode": "samples", "h": h}
        for h in itertools.combinations_with_replacement(vals, 3):
            yield {"mode": "list", "h": list(h)}
        for h in A.histories(vals, 2, 2):
            yield {"mode": "list", "h": h}
        for h in itertools.combinations_with_replacement(atoms + [A.ABSENT], 4):
            yield {"mode": "samples", "h": list(h)}
        for h in itertools.combinations_with_replacement(vals, 4):
            yield {"mode": "samples", "h": list(h)}
        for h in itertools.combinations_with_replacement(atoms, 5):
            yield {"mode": "list", "h": list(h)}
    # pseudo-types registered after the generator object exists (register_datetime_classes on a live registry)
    for h in A.histories(A.STRING_ATOMS + ["null"], 2 if tier == "quick" else 3, 2):
        yield {"mode": "samples", "h": h, "late": True}
        yield {"mode": "list", "h": h, "late": True}
    # graph inputs: types after merge_models (second pass for real)
    for spec in A.graph_specs(3 if tier == "quick" else 4):
        for merge in ("default", "exact"):
            yield {"mode": "graph", "g": spec, "merge": merge}
    for spec in A.sibling_graph_specs():
        for merge in ("default",) if tier == "quick" else ("default", "exact", "percent_50"):
            yield {"mode": "graph", "g": spec, "merge": merge}
    for h in A.histories([["2", a, b] for a in A.TWO_FIELD for b in A.TWO_FIELD], 2 if tier == "quick" else 3):
        yield {"mode": "two", "h": h}
    # mode 'merge': multisets of already simplified (inferred) field types, combined the way ModelRegistry._merge does:
    # every operand is the type of field `a` of its own model, inferred from its own sample history; the models' field sets go
    # through merge_field_sets + ONE optimize_type pass, which must already give the normal form (a second pass changes nothing)
    small = [[n] for n in A.ATOM_NAMES] + [[n, A.ABSENT] for n in A.ATOM_NAMES] + [[n, "null"] for n in A.ATOM_NAMES if n != "null"]
    wide = [[n] for n in vals] + [h for h in A.histories(atoms + [A.ABSENT], 2, 2)]
    if tier == "quick":
        for hl in itertools.combinations_with_replacement(wide, 2):
            yield {"mode": "merge", "hl": [list(h) for h in hl]}
        for hl in itertools.combinations_with_replacement(small, 3):
            yield {"mode": "merge", "hl": [list(h) for h in hl]}
    else:
        wide2 = [[n] for n in vals] + [h for h in A.histories(vals + [A.ABSENT], 2, 2) if any(x in atoms or x == A.ABSENT for x in h)]
        for hl in itertools.combinations_with_replacement(wide2, 2):
            yield {"mode": "merge", "hl": [list(h) for h in hl]}
        for hl in itertools.combinations_with_replacement(wide, 3):
            if sum(len(h) for h in hl) <= 4:
                yield {"mode": "merge", "hl": [list(h) for h in hl]}


def _samples(case):
    m = case["mode"]
    if m == "samples":
        return [A.obj1(n) for n in case["h"]]
    if m == "list":
        return [{"a": [A.value(n) for n in case["h"]]}]
    if m == "graph":
        return A.graph_samples(case["g"])
    if m == "two":
        return [A.sample_from_symbol(s) for s in case["h"]]
    raise ValueError(m)


def _merge_samples(hl):
    """root samples whose field x<i> holds the i-th model: sample j carries the j-th value of every history"""
    out = []
    for j in range(max(len(h) for h in hl)):
        out.append({f"x{i}": A.obj1(h[j]) for i, h in enumerate(hl) if j < len(h)})
    return out


def _execute_merge(case):
    from json_to_models.dynamic_typing import ModelMeta
    hl = case["hl"]
    shape = sorted("M(" + ",".join(A.symbol_name(s) for s in h) + ")" for h in hl)
    viol = []
    try:
        b = pipeline.build(_merge_samples(hl), types=pipeline.ALL_TYPES, do_merge=False, names=False)
    except Exception as e:
        return {"obs": ["exc"], "viol": [], "execs": 1, "trans": 1, "outcome": "raises_elsewhere:" + core.exc_site(e), "show": str(e)[:100]}
    root = b.root.type
    operands = [root.type[f"x{i}"] for i in range(len(hl))]
    models = []
    for t in operands:
        while ir.kind(t) == "opt":
            t = t.type
        if ir.kind(t) != "ptr":
            # an empty object is a mapping, not a model: nothing to merge
            return {"obs": ["not_models"], "viol": [], "execs": 1, "trans": 1, "outcome": "operand_not_a_model", "show": ""}
        models.append(t.type)
    stage = "merge_field_sets"
    try:
        fs = b.gen.merge_field_sets([m.type for m in models])
        mm = ModelMeta(fs, "9Z")
        stage = "first_pass"
        b.gen.optimize_type(mm)
        c1 = ir.canon_graph([mm])
        for clause, path in ir.nf_violations(mm):
            viol.append(core.viol("nf:" + clause, "after_merge_of_simplified_types", shape, f"{path} in {c1}"))
        stage = "second_pass"
        b.gen.optimize_type(mm)
        c2 = ir.canon_graph([mm])
        if c2 != c1:
            viol.append(core.viol("second_pass_changes_type", "merge_of_simplified_types", shape, f"{c1} -> {c2}"))
    except Exception as e:
        viol.append(core.viol("simplification_raises", "merge:" + core.exc_site(e), shape, f"{stage}: {type(e).__name__}: {e}"))
        return {"obs": ["exc"], "viol": viol, "execs": 2, "trans": 2, "outcome": "raises_in_simplification", "show": str(e)[:100]}
    show = repr(c1)[:300]
    return {"obs": [core.digest(show)], "viol": viol, "execs": 3, "trans": 3, "outcome": "ok", "show": show,
            "nontrivial": core.digest(show) if ("union" in show or "opt" in show) else None}


def _shape(case):
    if "h" in case:
        return [A.symbol_name(s) for s in case["h"]] + (["late_registration"] if case.get("late") else [])
    return ["G" + A.graph_name(case["g"])]


def execute(case):
    if case["mode"] == "merge":
        return _execute_merge(case)
    shape = _shape(case)
    viol, obs = [], []
    types = pipeline.ALL_TYPES
    dkr = [r"k\d"] if case["mode"] == "graph" else None
    stage = "first_pass"
    execs = 0
    try:
        b = pipeline.build(_samples(case), types=types, dkr=dkr, merge=case.get("merge", "default"),
                           do_merge=False, names=False, late_types=pipeline.DATETIME_TYPES if case.get("late") else ())
        execs += 1
        meta_c = ir.canon_graph([b.root])
        for clause, path in ir.nf_violations(b.root):
            viol.append(core.viol("nf:" + clause, "after_generate", shape, f"{path} in {meta_c}"))
        # second pass, in place, exactly what merge_models does for every model
        stage = "second_pass"
        for m in list(b.reg.models):
            b.gen.optimize_type(m)
        execs += 1
        c2 = ir.canon_graph([b.root])
        if c2 != meta_c:
            viol.append(core.viol("second_pass_changes_type", "optimize_type", shape, f"{meta_c} -> {c2}"))
        stage = "merge_models"
        b.reg.merge_models(b.gen)
        execs += 1
        c3 = ir.canon_graph([b.root])
        for clause, path in ir.nf_violations(b.root):
            viol.append(core.viol("nf:" + clause, "after_merge_models", shape, f"{path} in {c3}"))
        stage = "third_pass"
        for m in list(b.reg.models):
            b.gen.optimize_type(m)
        execs += 1
        c4 = ir.canon_graph([b.root])
        if c4 != c3:
            viol.append(core.viol("second_pass_changes_type", "optimize_type_after_merge", shape, f"{c3} -> {c4}"))
        obs.append(core.digest(repr(c3)))
        outcome = "ok"
        show = repr(c3)[:300]
    except Exception as e:
        site = core.exc_site(e)
        import traceback
        tb = "".join(traceback.format_tb(e.__traceback__))
        if "optimize" in tb or stage != "first_pass":
            viol.append(core.viol("simplification_raises", site, shape, f"{stage}: {type(e).__name__}: {e}"))
            outcome = "raises_in_simplification"
        else:
            outcome = "raises_elsewhere:" + site   # C01's business (generation must not raise)
        obs.append("exc:" + site)
        show = f"{type(e).__name__}: {e}"
    return {"obs": obs, "viol": viol, "execs": execs, "trans": max(execs, 1), "outcome": outcome, "show": show,
            "nontrivial": obs[0] if obs and ("union" in show or "opt" in show) else None}


def run(tier, seed):
    r = core.Run(PROP, tier, seed)
    r.rule = ("E1: all value sequences/multisets (all sequences of <=3 over 48 values as samples and multisets of 3 as one list quick; <=3 over values, all multisets of 4 over 46 values and of 5 over atoms thorough) fed through generate() as samples of one field and as one list value, plus graph inputs "
              "through merge_models; multisets of 2-3 already simplified field types (each inferred from its own history) through merge_field_sets + one pass, as ModelRegistry._merge combines them; non-trivial = distinct canonical result containing a union or optional")
    r.bounds = {"tier": tier, "values": len(A.VALUE_NAMES), "atoms": len(A.ATOM_NAMES)}
    r.assumptions = ["operands are restricted to types the real _detect_type produces for JSON values (inferred types)",
                     "DTuple is never produced by the generator and is out of scope"]
    for case, res in core.pmap(execute, _cases(tier), chunksize=256):
        r.add(case, res)
    return r.finish(replay_fn=execute)
