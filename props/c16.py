"""C16 - the command line is a faithful front end to the library pipeline (DESIGN.md section 4, C16).

E8: every way (within the bound) of splitting sample lists over files / lookups / repeated -m / -l /
a glob pattern / two model names, x option sets (each option alone and all pairs) x input formats,
run through the real `main()` in forked children; a subset re-run as real `python -m json_to_models`
subprocesses must agree byte for byte.  Oracle: a reference pipeline written here from the README's
option descriptions, calling the library's public API."""
import copy
import itertools
import json
import os
import shutil
import tempfile

from mc import clidrv, core, pipeline
from json_to_models.dynamic_typing import StringSerializableRegistry
from json_to_models.generator import MetadataGenerator
from json_to_models.models.base import generate_code
from json_to_models.registry import ModelRegistry

PROP = "C16"

SAMPLES = {
    "S1": [{"id": 1, "name": "a", "tag": {"k": "x"}}, {"id": 2, "name": "b", "tag": None},
           {"id": "3", "name": "c", "extra": [1]}, {"id": 4, "name": "a", "tag": {"k": "y", "z": 1.5}}],
    "S2": [{"a1": {"x": 1, "y": 2, "z": 3}, "m": {"k1": {"q": 1}}, "dict_field": {"u": 1, "v": "s"}, "mix": {"k1": {"q": 1}, "zz": {"q": 2}},
            "p1": {"fa": 1, "fb": 2, "fc": 3, "fd": 4}, "p2": {"fa": 1, "fb": 2, "fc": 3, "fe": 5}},     # 60 % / 3 shared keys
           {"a1": {"x": 1, "y": 2, "z": 3, "w": 4}, "m": {"k2": {"q": 2}}, "b": {"x": 1, "y": 5}},
           {"b": {"x": 2, "y": 5, "z": 6, "w": 7}, "when": "2020-01-01", "dict_field": {"t": 2}}],
    "S3": [{"s": "1", "t": "true", "d": "2020-01-01T10:00:00", "tm": "12:30", "dy": "2020-02-03", "l": "lit", "ключ": "ü", "u": "x\u2028y", "k\u0085ey": 1},
           {"s": "2.5", "t": "false", "d": "2021-01-01T10:00:00", "tm": "13:45:10", "dy": "2021-03-04", "l": "lot", "ключ": "é", "u": "x\u2029z", "k\u0085ey": 2},
           {"s": "3", "t": "true", "d": None, "l": "lit", "opt": ["1", "2"]}],
}

# option name -> (argv fragment, reference parameters)
OPTIONS = {
    "f_base": (["-f", "base"], {"fw": "base"}),
    "f_pydantic": (["-f", "pydantic"], {"fw": "pydantic"}),
    "f_sqlmodel": (["-f", "sqlmodel"], {"fw": "sqlmodel"}),
    "f_attrs": (["-f", "attrs"], {"fw": "attrs"}),
    "f_dataclasses": (["-f", "dataclasses"], {"fw": "dataclasses"}),
    "s_nested": (["-s", "nested"], {"layout": "nested"}),
    "s_flat": (["-s", "flat"], {"layout": "flat"}),
    "merge_exact": (["--merge", "exact"], {"merge": [("exact",)]}),
    "merge_percent_50": (["--merge", "percent_50"], {"merge": [("percent", 0.5)]}),
    "merge_number_2": (["--merge", "number_2"], {"merge": [("number", 2)]}),
    "merge_percent_50_number_3": (["--merge", "percent_50", "number_3"], {"merge": [("percent", 0.5), ("number", 3)]}),
    "merge_percent_50_percent_90": (["--merge", "percent_50", "percent_90"], {"merge": [("percent", 0.5), ("percent", 0.9)]}),
    "merge_number_4_number_2": (["--merge", "number_4", "number_2"], {"merge": [("number", 4), ("number", 2)]}),
    "dkr": (["--dkr", r"k\d", "zz"], {"dkr": [r"k\d", "zz"]}),
    "dkf": (["--dkf", "dict_field"], {"dkf": ["dict_field"]}),
    "datetime": (["--datetime"], {"datetime": True}),
    "converters": (["--strings-converters"], {"converters": True}),
    "max_literals_0": (["--max-strings-literals", "0"], {"max_literals": 0}),
    "max_literals_2": (["--max-strings-literals", "2"], {"max_literals": 2}),
    "no_unidecode": (["--no-unidecode"], {"unicode": False}),
    "disable_float": (["--disable-str-serializable-types", "float"], {"disable": ["float"]}),
    "disable_int_bool": (["--disable-str-serializable-types", "int", "BooleanString"], {"disable": ["int", "BooleanString"]}),
    "disable_date_time": (["--disable-str-serializable-types", "date", "IsoTimeString"], {"disable": ["date", "IsoTimeString"]}),
    "preamble": (["--preamble", "  X = 1  # preamble text  "], {"preamble": "  X = 1  # preamble text  "}),
    "f_attrs_meta": (["-f", "attrs", "--code-generator-kwargs", "meta=true"], {"fw": "attrs", "extra": {"meta": True}}),
    # the stock generators named by import path: every dedicated option still has to reach them
    "f_custom_pydantic": (["-f", "custom", "--code-generator", "json_to_models.models.pydantic.PydanticModelCodeGenerator"], {"fw": "pydantic"}),
    "f_custom_attrs": (["-f", "custom", "--code-generator", "json_to_models.models.attr.AttrsModelCodeGenerator"], {"fw": "attrs"}),
    "f_custom_dataclasses": (["-f", "custom", "--code-generator", "json_to_models.models.dataclasses.DataclassModelCodeGenerator"], {"fw": "dataclasses"}),
    "f_dataclasses_meta": (["-f", "dataclasses", "--code-generator-kwargs", "meta=true"], {"fw": "dataclasses", "extra": {"meta": True}}),
}
FRAMEWORK_OPTS = [o for o in OPTIONS if o.startswith("f_")]
ACTUAL = {"int": "IntString", "float": "FloatString", "bool": "BooleanString", "date": "IsoDateString", "time": "IsoTimeString",
          "datetime": "IsoDatetimeString"}


def compatible(opts):
    fws = [o for o in opts if o.startswith("f_")]
    if len(fws) > 1:
        return False
    if len([o for o in opts if o.startswith("s_")]) > 1 or len([o for o in opts if o.startswith("merge_")]) > 1:
        return False
    if len([o for o in opts if o.startswith("max_literals")]) > 1 or len([o for o in opts if o.startswith("disable_")]) > 1:
        return False
    return True


def reference(models, params):
    """the library pipeline for [(name, samples)] under the option parameters (README semantics)"""
    names = ["IntString", "FloatString", "BooleanString"]
    if params.get("datetime"):
        names += ["IsoDateString", "IsoTimeString", "IsoDatetimeString"]
    for d in params.get("disable", []):
        victim = ACTUAL.get(d, d)
        names = [n for n in names if n != victim]
    gen = MetadataGenerator(
        str_types_registry=pipeline.make_str_registry(names),
        dict_keys_regex=[f"^{r}$" for r in params["dkr"]] if params.get("dkr") else None,
        dict_keys_fields=params.get("dkf"),
    )
    reg = ModelRegistry(*pipeline.make_cmps(params.get("merge")))
    for name, samples in models:
        reg.process_meta_data(gen.generate(*copy.deepcopy(samples)), name)
    reg.merge_models(gen)
    reg.generate_names()
    structure = pipeline.LAYOUTS[params.get("layout", "flat")](reg.models_map)
    kw = dict(post_init_converters=bool(params.get("converters")), convert_unicode=params.get("unicode", True),
              max_literals=params.get("max_literals", 10))
    kw.update(params.get("extra", {}))
    pre = params.get("preamble")
    pre = pre.strip() if pre else None
    return generate_code(structure, pipeline.FRAMEWORKS[params.get("fw", "base")], class_generator_kwargs=kw, preamble=pre or None)


# ------------------------------------------------------------------------------------------------
# input splitting
# ------------------------------------------------------------------------------------------------

def compositions(n, kmax=3):
    for k in range(1, min(n, kmax) + 1):
        for cuts in itertools.combinations(range(1, n), k - 1):
            b = (0,) + cuts + (n,)
            yield [list(range(b[i], b[i + 1])) for i in range(k)]


def _cases(tier):
    # (A) splitting space under a few option sets
    optsets = [[], ["f_pydantic"], ["f_attrs", "s_nested"]] if tier == "quick" else \
        [[], ["f_pydantic"], ["f_attrs", "s_nested"], ["f_dataclasses", "converters", "datetime"], ["f_sqlmodel", "merge_exact"]]
    for sname, fmt in (("S1", "json"), ("S1", "yaml"), ("S3", "json"), ("S2", "json")):
        n = len(SAMPLES[sname])
        for comp in compositions(n):
            forms = ["list", "wrapped", "wrapped3"] + (["object"] if any(len(p) == 1 for p in comp) else [])
            for form in forms:
                for argform in ("m_each", "l_each", "glob", "glob_q", "glob_dir", "glob_rec", "two_names", "interleaved", "m_then_l", "one_file_lookups",
                                "one_file_lookups_two_names"):
                    if argform.startswith("one_file") and (form != "list" or len(comp) < 2):
                        continue
                    if argform in ("glob_q", "glob_dir", "glob_rec") and (form != "list" or fmt != "json"):
                        continue
                    if argform in ("two_names", "interleaved", "m_then_l") and len(comp) < 2:
                        continue
                    if argform == "l_each" and form == "object":
                        pass
                    if tier == "quick" and fmt == "yaml" and argform not in ("m_each", "glob"):
                        continue
                    for opts in optsets:
                        if tier == "quick" and sname in ("S2", "S3") and opts != optsets[1]:
                            continue
                        yield {"s": sname, "fmt": fmt, "comp": comp, "form": form, "arg": argform, "opts": opts, "out": "stdout"}
    # (B) option space: each option alone and all pairs, on the sample list each option can influence
    singles = list(OPTIONS)
    combos = [[o] for o in singles] + [list(c) for c in itertools.combinations(singles, 2)]
    if tier != "quick":
        combos += [list(c) for c in itertools.combinations(singles, 3) if sum(o.startswith("f_") for o in c) == 1 and
                   not any(o.startswith("s_") for o in c)][::7]
    for opts in combos:
        if not compatible(opts):
            continue
        for sname in ("S1", "S2", "S3"):
            if tier == "quick" and len(opts) == 2 and sname == "S1":
                continue
            yield {"s": sname, "fmt": "json", "comp": [[0], list(range(1, len(SAMPLES[sname])))], "form": "list", "arg": "m_each",
                   "opts": opts, "out": "stdout" if len(opts) == 1 or sname != "S3" else "file"}
    # (D) a model name whose file contributes zero samples (top-level [] or an empty list under the lookup): alone, first / last of
    # several names, first occurrence of a repeated name
    for variant in ("only", "first_of_repeat", "last", "wrapped_first", "middle", "empty_object_file", "empty_object_only", "empty_object_lookup",
                    "empty_object_l"):
        for opts in ([], ["f_pydantic"], ["f_attrs", "s_nested"], ["f_dataclasses", "merge_exact"]):
            for out in ("stdout", "file"):
                yield {"s": "EMPTY", "fmt": "json", "comp": [[0]], "form": variant, "arg": "m_each", "opts": opts, "out": out}
    # (E) the entry point called twice in one process: what the second run prints must not depend on the first run's options
    # (beyond what the statement lets a run leave behind: nothing)
    for sname in ("S2", "S3"):
        # That the default string registry keeps what --datetime / --disable-str-serializable-types did to it is the CLI's documented
        # process-global state: the second run therefore names --datetime again whenever the first one did, and the first never disables.
        for pre in (["datetime"], ["max_literals_0", "f_attrs"], ["datetime", "converters", "f_dataclasses"], ["f_attrs_meta"], ["f_dataclasses_meta", "no_unidecode"]):
            for opts in (["datetime", "disable_date_time"], ["datetime"], ["f_pydantic", "datetime", "disable_int_bool"], [], ["f_attrs"], ["f_dataclasses"]):
                if "datetime" in pre and "datetime" not in opts:
                    continue
                yield {"s": sname, "fmt": "json", "comp": [[0], list(range(1, len(SAMPLES[sname])))], "form": "list", "arg": "m_each",
                       "opts": opts, "out": "stdout", "pre_opts": pre}
    # (C) ini input (string-valued sections)
    for opts in ([], ["f_pydantic"], ["f_dataclasses", "converters"]):
        yield {"s": "INI", "fmt": "ini", "comp": [[0], [1]], "form": "object", "arg": "m_each", "opts": opts, "out": "stdout"}


INI_FILES = ["[alpha]\nport = 80\nname = x\n[beta]\nport = 81\nflag = true\n", "[alpha]\nport = 90\nname = y\n"]
INI_SAMPLES = [{"alpha": {"port": "80", "name": "x"}, "beta": {"port": "81", "flag": "true"}}, {"alpha": {"port": "90", "name": "y"}}]


def _dump(fmt, data):
    if fmt == "json":
        return json.dumps(data, ensure_ascii=False)
    if fmt == "yaml":
        # JSON is a subset of YAML 1.2 flow style; the yaml loader must read it back identically
        return json.dumps(data, ensure_ascii=False, indent=1)
    raise ValueError(fmt)


def materialise(case, d):
    """write the files, return (argv, [reference model lists in acceptable orders])"""
    if case["s"] == "INI":
        paths = []
        for i, txt in enumerate(INI_FILES):
            p = os.path.join(d, f"f{i}.ini")
            open(p, "w").write(txt)
            paths.append(p)
        argv = ["-i", "ini"]
        for p in paths:
            argv += ["-m", "Conf", os.path.basename(p)]
        return argv, [[("Conf", INI_SAMPLES)]]
    if case["s"] == "EMPTY":
        s1 = SAMPLES["S1"]

        def put(name, content):
            with open(os.path.join(d, name), "w", encoding="utf8") as f:
                json.dump(content, f)
        put("e.json", [])
        put("ew.json", {"d": {"items": [], "n": 0}})
        put("u.json", s1[:2])
        put("o.json", s1[2:])
        v = case["form"]
        if v == "only":
            return ["-m", "Empty", "e.json"], [[("Empty", [])]]
        if v == "first_of_repeat":
            return ["-m", "Order", "e.json", "-m", "User", "u.json", "-m", "Order", "o.json"], [[("Order", s1[2:]), ("User", s1[:2])]]
        if v == "last":
            return ["-m", "User", "u.json", "-m", "Order", "e.json"], [[("User", s1[:2]), ("Order", [])]]
        if v == "wrapped_first":
            return ["-m", "Empty", "d.items", "ew.json", "-m", "User", "u.json"], [[("Empty", []), ("User", s1[:2])]]
        # a sample that is the empty object {} is a sample (it makes every field of the model optional)
        put("eo.json", {})
        put("eow.json", {"d": {"item": {}, "n": 0}})
        if v == "empty_object_file":
            return ["-m", "User", "u.json", "-m", "User", "eo.json"], [[("User", s1[:2] + [{}])]]
        if v == "empty_object_only":
            return ["-m", "Empty", "eo.json", "-m", "User", "u.json"], [[("Empty", [{}]), ("User", s1[:2])]]
        if v == "empty_object_lookup":
            return ["-m", "User", "d.item", "eow.json", "-m", "User", "u.json"], [[("User", [{}] + s1[:2])]]
        if v == "empty_object_l":
            return ["-l", "User", "-", "u.json", "-l", "User", "d.item", "eow.json"], [[("User", s1[:2] + [{}])]]
        if v == "middle":
            return ["-m", "User", "u.json", "-m", "Empty", "e.json", "-m", "Order", "o.json"], [[("User", s1[:2]), ("Empty", []), ("Order", s1[2:])]]
        raise ValueError(v)
    samples = SAMPLES[case["s"]]
    ext = {"json": "json", "yaml": "yaml"}[case["fmt"]]
    if case["arg"].startswith("one_file"):
        # every part lives in ONE document under its own lookup path; the file is named once per part
        doc = {f"part{i}": {"items": [samples[j] for j in part]} for i, part in enumerate(case["comp"])}
        doc["part0"]["whole"] = doc["part0"]["items"][0]
        with open(os.path.join(d, f"doc.{ext}"), "w", encoding="utf8") as f:
            f.write(_dump(case["fmt"], doc))
        argv = [] if case["fmt"] == "json" else ["-i", case["fmt"]]
        parts = [[samples[j] for j in part] for part in case["comp"]]
        if case["arg"] == "one_file_lookups":
            for i in range(len(parts)):
                argv += ["-m", "Root", f"part{i}.items", f"doc.{ext}"]
            return argv, [[("Root", [o for p in parts for o in p])]]
        merged = {}
        for i, pt in enumerate(parts):
            nm = "Alpha" if i % 2 == 0 else "Beta"
            argv += ["-m", nm, f"part{i}.items", f"doc.{ext}"]
            merged.setdefault(nm, []).extend(pt)
        return argv, [list(merged.items())]
    files = []   # (filename, lookup, samples in file)
    for i, part in enumerate(case["comp"]):
        objs = [samples[j] for j in part]
        form = case["form"]
        if form == "object" and len(objs) != 1:
            form = "list"
        if form == "list":
            content, lookup = objs, "-"
        elif form == "object":
            content, lookup = objs[0], "-"
        elif form == "wrapped3":
            content, lookup = {"d": {"e": {"items": objs, "x.y": 1}, "items": "decoy"}, "items": [{"decoy": 1}]}, "d.e.items"
        else:
            content, lookup = {"d": {"items": objs, "other": 1}, "meta": {"n": len(objs)}}, "d.items"
        name = f"f{i}.{ext}"
        if case["arg"] in ("glob_dir", "glob_rec"):
            os.makedirs(os.path.join(d, "in", "deep"), exist_ok=True)
            name = os.path.join("in", name) if case["arg"] == "glob_dir" or i % 2 == 0 else os.path.join("in", "deep", name)
        with open(os.path.join(d, name), "w", encoding="utf8") as f:
            f.write(_dump(case["fmt"], content))
        files.append((name, lookup, objs))
    argv = [] if case["fmt"] == "json" else ["-i", case["fmt"]]
    arg = case["arg"]

    def m(name, fn, lookup):
        return ["-m", name, fn] if lookup == "-" else ["-m", name, lookup, fn]
    if arg == "m_each":
        for fn, lk, _ in files:
            argv += m("Root", fn, lk)
        refs = [[("Root", [o for _, _, objs in files for o in objs])]]
    elif arg == "l_each":
        for fn, lk, _ in files:
            argv += ["-l", "Root", lk, fn]
        refs = [[("Root", [o for _, _, objs in files for o in objs])]]
    elif arg in ("glob", "glob_q", "glob_dir", "glob_rec"):
        lk = files[0][1]
        pat = {"glob": f"f*.{ext}", "glob_q": f"f?.{ext}", "glob_dir": f"in/f*.{ext}", "glob_rec": f"in/**/f*.{ext}"}[arg]
        argv += ["-m", "Root", pat] if lk == "-" else ["-m", "Root", lk, pat]
        refs = [[("Root", [o for _, _, objs in perm for o in objs])] for perm in itertools.permutations(files)]
    elif arg == "two_names":
        for i, (fn, lk, _) in enumerate(files):
            argv += m("Alpha" if i == 0 else "Beta", fn, lk)
        refs = [[("Alpha", files[0][2]), ("Beta", [o for _, _, objs in files[1:] for o in objs])]]
    elif arg == "interleaved":
        # Alpha f0, Beta f1, Alpha f2 ... : non-adjacent repetitions of one name
        order = []
        for i, (fn, lk, objs) in enumerate(files):
            nm = "Alpha" if i % 2 == 0 else "Beta"
            argv += m(nm, fn, lk)
            order.append((nm, objs))
        merged = {}
        for nm, objs in order:
            merged.setdefault(nm, []).extend(objs)
        refs = [list(merged.items())]
    elif arg == "m_then_l":
        for fn, lk, _ in files[:-1]:
            argv += m("Root", fn, lk)
        fn, lk, _ = files[-1]
        argv += ["-l", "Root", lk, fn]
        refs = [[("Root", [o for _, _, objs in files for o in objs])]]
    else:
        raise ValueError(arg)
    return argv, refs


def execute(case, force_subprocess=False):
    d = tempfile.mkdtemp(prefix="c16_")
    viol = []
    shape = sorted(set(["arg:" + case["arg"], "form:" + case["form"], "fmt:" + case["fmt"], f"files:{len(case['comp'])}"]
                       + ["opt:" + o for o in case["opts"]] + (["out:file"] if case["out"] == "file" else [])
                       + ["earlier_run:" + o for o in case.get("pre_opts") or []] + (["earlier_run"] if case.get("pre_opts") is not None else [])))
    try:
        argv, refs = materialise(case, d)
        params = {}
        for o in case["opts"]:
            frag, par = OPTIONS[o]
            argv += frag
            params.update(copy.deepcopy(par))
        if case["out"] == "file":
            argv += ["-o", "out.py"]
        try:
            expected = []
            for ref in refs:
                t = reference(ref, params)
                if t not in expected:
                    expected.append(t)
        except Exception as e:
            expected = None
            exp_exc = f"{type(e).__name__}"
        runner = clidrv.run_subprocess if force_subprocess else clidrv.run_inproc
        if case.get("pre_opts") is not None:
            base_argv, _ = materialise(case, d)
            pre_argv = list(base_argv)
            for o in case["pre_opts"]:
                pre_argv += OPTIONS[o][0]
            status, out, err = clidrv.run_inproc(argv, d, pre=[pre_argv])
        else:
            status, out, err = runner(argv, d)
        if expected is None:
            # the library pipeline itself raises for this input (C01's business); the CLI must then fail too (C17)
            return {"obs": ["ref_raises"], "viol": [], "outcome": "reference_raises:" + exp_exc, "show": exp_exc}
        if status != 0:
            viol.append(core.viol("cli_fails_where_library_succeeds", "exit", shape, f"status {status}: {err[-300:]} argv={argv}"))
            return {"obs": ["cli_fails"], "viol": viol, "outcome": "cli_fails", "show": err[-100:]}
        if case["out"] == "file":
            try:
                with open(os.path.join(d, "out.py"), encoding="utf8") as f:
                    text = f.read()
            except OSError as e:
                text = ""
                viol.append(core.viol("output_file_not_written", "-o", shape, str(e)))
            header, rest = clidrv.split_header(text)
            if "class " in out:
                viol.append(core.viol("code_printed_although_o_given", "-o", shape, out[:200]))
            got = rest
            want = expected            # file holds header + code exactly
        else:
            header, rest = clidrv.split_header(out)
            # what is printed is the text; how many newline characters end the stream (print() adds one) is not part of the property
            got = rest.rstrip("\n") + "\n"
            want = [t.rstrip("\n") + "\n" for t in expected]
        if header is None:
            viol.append(core.viol("header_missing_or_malformed", case["out"], shape, (out or "")[:200]))
        elif got not in want:
            a, b = got.splitlines(), want[0].splitlines()
            diff = next((f"line {i + 1}: cli {x!r} / library {y!r}" for i, (x, y) in
                         enumerate(itertools.zip_longest(a, b, fillvalue="<eof>")) if x != y), "length")
            viol.append(core.viol("cli_output_differs_from_library", case["out"], shape, f"{diff} argv={argv}"))
        return {"obs": [core.digest(got)], "viol": viol, "outcome": "same" if not viol else "differs", "show": " ".join(argv)[:200],
                "got": got, "nontrivial": core.digest(case) if len(case["comp"]) > 1 or len(case["opts"]) > 1 else None}
    finally:
        shutil.rmtree(d, ignore_errors=True)


def run(tier, seed):
    r = core.Run(PROP, tier, seed)
    r.rule = ("E8: compositions of 3-4 samples into <=3 files x file form {list, object, wrapped+lookup} x argument form {-m per file, -l per file, "
              "glob, two names, interleaved names, -m then -l} x option sets; each of 22 options alone and all compatible pairs on 3 sample "
              "lists; json/yaml/ini; in-process main() in forked children, a subset as real subprocesses; non-trivial = multi-file or "
              "multi-option cases")
    r.bounds = {"tier": tier}
    r.assumptions = ["reference pipeline written from the README option descriptions (props/c16.py: reference)",
                     "glob: output must equal the reference for one of the k! file orders",
                     "-m and -l for one model are only mixed with all -l after all -m (argparse cannot preserve their relative order)"]
    cases = list(_cases(tier))
    sub = []
    for case, res in core.pmap(execute, cases, chunksize=8, budget_s=240 if tier == "quick" else 1500):
        got = res.pop("got", None)
        r.add(case, res)
        if got is not None and len(sub) < (120 if tier == "quick" else 600) and (len(sub) % 3 == 0 or len(case["opts"]) > 1):
            sub.append((case, got))
        elif got is not None and len(sub) < (120 if tier == "quick" else 600):
            sub.append((case, got))
    if core.pmap.capped:
        r.caps.append("wall budget hit")
    # binding: the same cases as real `python -m json_to_models` subprocesses must give the same text
    step = max(1, len(sub) // (100 if tier == "quick" else 400))
    chosen = sub[::step]
    n_bound = 0
    results = {core.jdump(c): g for c, g in chosen}
    for case, res in core.pmap(_subproc, [c for c, _ in chosen], chunksize=2):
        n_bound += 1
        g2 = res.get("got")
        if g2 != results[core.jdump(case)] and not res.get("viol"):
            r.raw_violations.append((dict(case, subprocess=True), core.viol("in_process_driver_differs_from_subprocess", "driver", [],
                                    "python -m json_to_models output differs from in-process main()")))
        for v in res.get("viol", []):
            r.raw_violations.append((dict(case, subprocess=True), v))
    r.extra["subprocess_bound_cases"] = n_bound
    return r.finish(replay_fn=lambda c: _strip(execute({k: v for k, v in c.items() if k != "subprocess"}, force_subprocess=bool(c.get("subprocess")))))


def _strip(res):
    res.pop("got", None)
    return res


def _subproc(case):
    return execute(case, force_subprocess=True)
