"""C03 - emitted module is loadable Python with every reference resolvable (DESIGN.md section 4, C03).

E2: graph-shaped inputs x merge policies x frameworks x layouts x options, and every realistic key
string (<=3/4 symbols + reserved words with one symbol around) as scalar field, object field and
list-of-objects field x frameworks x unicode option.  Oracle: compile + exec with the module's own
imports, class statements == registered models, get_type_hints with enclosing-class namespaces,
references resolve to the class of the referenced model, identifier / uniqueness / shadowing rules."""
import itertools

from mc import alphabet as A
from mc import core, ir, judge, pipeline, program

PROP = "C03"
FWS = ["base", "pydantic", "sqlmodel", "attrs", "dataclasses"]


def _graph_cases(tier):
    if tier == "quick":
        specs = list(A.graph_specs(3))
    else:
        specs = list(A.graph_specs(3)) + [g for g in A.graph_specs(4, payloads=("P1", "P2", "P3"), wrappers=("plain", "list", "dict"))
                                          if A.graph_size(g) == 4]
    # 4-node trees over payloads that bring their own imports (List / Dict values): import collection across nesting levels
    specs += [g for g in A.graph_specs(4, payloads=("P1", "P3l", "P4d"), wrappers=("plain", "list")) if A.graph_size(g) == 4]
    # a Literal value with a line-separator character inside a class that the nested layout indents
    specs += [g for g in A.graph_specs(3, payloads=("P1", "P3u"), wrappers=("plain", "list")) if "P3u" in A.graph_name(g) and A.graph_size(g) >= 2]
    for spec in specs:
        for merge in ("default", "exact"):
            yield {"in": ["G", spec], "merge": merge, "opts": "std"}
    # sibling family: same key at two places -> equal generated names that are not adjacent in the registry
    for spec in A.sibling_graph_specs(child_payloads=("P3", "P3f", "P4", "P1") if tier == "quick" else ("P3", "P3f", "P3s", "P4", "P1", "P3l")):
        for merge in ("default", "exact"):
            yield {"in": ["G", spec], "merge": merge, "opts": "sib"}
    for spec in A.graph_specs(2):
        for merge in ("default",):
            yield {"in": ["G", spec], "merge": merge, "opts": "all"}


def _keys(tier):
    L = 3 if tier == "quick" else 4
    seen = set()
    for k in itertools.chain(A.key_strings(A.KEY_SYMBOLS_REALISTIC, L), A.word_forms(A.KEY_WORDS, A.KEY_SYMBOLS_REALISTIC), A.KEYWORD_CASES):
        if k not in seen and A.realistic_key(k):
            seen.add(k)
            yield k


def _cases(tier):
    yield from _graph_cases(tier)
    for k in _keys(tier):
        yield {"in": ["K", k], "opts": "key"}
        yield {"in": ["KL", k], "opts": "key"}
    # the same key as an optional scalar followed by an optional list (defaults / factories in class scope)
    seen = set()
    for k in A.word_forms(A.KEY_WORDS, A.KEY_SYMBOLS_REALISTIC[:6]):
        if A.realistic_key(k) and k not in seen:
            seen.add(k)
            yield {"in": ["K2", k], "opts": "key"}
    for k in A.key_strings(A.KEY_SYMBOLS_REALISTIC, 2):
        if A.realistic_key(k):
            yield {"in": ["K2", k], "opts": "key"}
            yield {"in": ["K3", k], "opts": "key"}
    for k in A.word_forms(A.KEY_WORDS, ["-"]):
        if A.realistic_key(k):
            yield {"in": ["K3", k], "opts": "key"}
    for v in A.VALUE_NAMES:
        for v2 in ("null", A.ABSENT, None):
            yield {"in": ["V", v, v2], "opts": "conv"}
    # values whose model ends up without any emitted field (every field always null: pydantic drops them) or without fields at all
    for v in ("O(k:null)", "eobj", "L(O(k:int))", "O(k:eobj)", "O(k:elist)", "L(null)", "null"):
        for v2 in ("null", A.ABSENT, None, "O(k:null)"):
            yield {"in": ["V", v, v2], "opts": "std"}
    # the key as a plain required field FOLLOWED by an optional pseudo-typed field (whose declaration calls imported helpers such as
    # attr.converters.optional / dataclasses.field after the key's name has been bound in the class body)
    seen4 = set()
    for k in itertools.chain(A.word_forms(A.KEY_WORDS, ["-"]), A.KEYWORD_CASES):
        if A.realistic_key(k) and k not in seen4:
            seen4.add(k)
            yield {"in": ["K4", k], "opts": "key"}
    # user-given root model names (what -m NAME supplies): plural / snake / lower-case / reserved names next to keys whose generated
    # class name is the singular CamelCase form of the same word; two roots whose names differ only by that normalisation
    for name in ROOT_NAMES:
        yield {"in": ["R", [name]], "opts": "std"}
    for name in ROOT_NAMES:
        # a model used by two siblings is placed under the root and referenced through the root's (sanitised) name
        yield {"in": ["R", [name], "shared"], "opts": "std", "judge_nontree": True}
    for name in ("Node", "Item", "order", "Users"):
        # the root merges with its own list items and another nested model generates the root's name from its key
        yield {"in": ["R", [name], "recursive"], "opts": "std", "judge_nontree": True}
    for name in ("List", "Optional", "user-profile", "class", "Юзер", "User", "datetime"):
        # a root model (given with its own -m name) that is also referenced from a class nested inside another root
        yield {"in": ["R", ["Post", name], "referenced_root"], "opts": "std", "judge_nontree": True}
        yield {"in": ["R", [name, "Post"], "referenced_root"], "opts": "std", "judge_nontree": True}
    for pair in (["Photo", "Photos"], ["Users", "User"], ["order_lines", "OrderLine"], ["Item", "Items"], ["Field", "Fields"]):
        yield {"in": ["R", pair], "opts": "std"}


ROOT_NAMES = ["Users", "users", "User", "Photos", "order_lines", "OrderLine", "Field", "List", "Optional", "Any", "Literal", "Items", "item", "Data",
              "BaseModel", "datetime", "Root_2"]
ROOT_BODY = {"users": [{"id": 1, "photos": [{"w": 1}]}], "order_lines": [{"q": 2}], "field": {"z": 1}, "item": {"list": {"v": 1}}, "n": 1}


def _samples(case):
    tag = case["in"][0]
    if tag == "R":
        return None, None
    if tag == "G":
        return A.graph_samples(case["in"][1]), [r"k\d"]
    if tag == "K":
        k = case["in"][1]
        return [{k: {k: 1, "x": None, "when": "2020-01-01"}}], None
    if tag == "KL":
        k = case["in"][1]
        return [{k: [{k: "x", "y": [1], "at": "12:30"}], "w": 1}], None
    if tag == "K2":
        k = case["in"][1]
        return [{k: 1, "zz": [1], "yy": {"k1": 1}}, {}], [r"k\d"]
    if tag == "K3":     # the key as an optional scalar AFTER an optional container (defaults precede it), next to a date-typed field
        k = case["in"][1]
        return [{"zz": [1], "when": "2020-01-01", k: 1}, {"when": "2021-01-01"}], [r"k\d"]
    if tag == "K4":
        k = case["in"][1]
        return [{k: 1, "zz": "1", "yy": "1.5"}, {k: 2, "yy": None}], None
    if tag == "V":
        s = [A.obj1(case["in"][1])]
        if case["in"][2] is not None:
            s.append(A.obj1(case["in"][2]))
        return s, None
    raise ValueError(tag)


def _configs(case, tree):
    lay = ["flat", "nested"]
    o = case["opts"]
    if o == "std":
        for fw in FWS:
            for l in lay:
                yield fw, l, {}
        for fw in ("attrs", "dataclasses"):
            yield fw, "flat", {"convert_unicode": False}
    elif o == "sib":
        for fw in ("pydantic", "dataclasses"):
            for l in lay:
                yield fw, l, {}
    elif o == "all":
        for fw in FWS:
            for l in lay:
                for kw in ({"post_init_converters": True}, {"meta": True}, {"convert_unicode": False}, {"max_literals": 0}):
                    if "meta" in kw and fw not in ("attrs", "dataclasses"):
                        continue
                    yield fw, l, kw
    elif o == "key":
        for fw in FWS:
            for uni in (True, False):
                yield fw, "flat", ({} if uni else {"convert_unicode": False})
        yield "pydantic", "nested", {}
        yield "dataclasses", "nested", {"meta": True}
        yield "dataclasses", "flat", {"meta": True}
        yield "attrs", "flat", {"meta": True}
    elif o == "conv":
        for fw in ("attrs", "dataclasses"):
            for conv in (False, True):
                yield fw, "flat", ({"post_init_converters": True} if conv else {})


def _shape(case):
    tag = case["in"][0]
    if tag == "G":
        return ["G" + A.graph_name(case["in"][1])]
    if tag in ("K", "K2", "K3", "K4", "KL"):
        k = case["in"][1]
        toks = []
        for w in A.KEY_WORDS:
            if w in k:
                toks.append("word:" + w)
        if not toks and k in A.KEYWORD_CASES:
            toks.append("kw:" + k)
        if not toks:
            toks = ["sym:" + ("sp" if c == " " else c) for c in sorted(set(k))]
        return toks
    if tag == "R":
        return ["root:" + n for n in case["in"][1]] + ([case["in"][2] if case["in"][2] != "shared" else "shared_child"] if len(case["in"]) > 2 else [])
    return [x for x in case["in"][1:] if x is not None]


def _build(case, samples, dkr):
    if case["in"][0] == "R":
        import copy
        names = case["in"][1]
        body = ROOT_BODY if len(case["in"]) < 3 else {"a": {"item": {"v": 1}, "p": 1}, "b": {"item": {"v": 2}, "q": "s"}}
        if len(case["in"]) > 2 and case["in"][2] == "recursive":
            import inflection
            key = inflection.underscore(names[0]).rstrip("s")
            body = {"id": 1, "name": "n", "children": [{"id": 2, "name": "m", "children": [], "own0": 5, "extra0": [1]}], key: {"other": 1, "thing": "x"}}
        roots = {n: [dict(copy.deepcopy(body), **{f"own{i}": i, f"extra{i}": [i]})] for i, n in enumerate(names)}
        if len(case["in"]) > 2 and case["in"][2] == "referenced_root":
            roots = {n: ([{"title": "t", "meta": {"author": {"login": "x", "uid": 1}, "n": 1}, "tags": [{"author": {"login": "z", "uid": 3}}]}] if n == "Post"
                         else [{"login": "y", "uid": 2}]) for n in names}
        return pipeline.build_roots(roots, types=pipeline.ALL_TYPES, merge=case.get("merge", "default"))
    return pipeline.build(samples, types=pipeline.ALL_TYPES, dkr=dkr, merge=case.get("merge", "default"))


def execute(case):
    samples, dkr = _samples(case)
    shape = _shape(case)
    viol, obs, outcomes = [], [], []
    execs = 0
    try:
        b0 = _build(case, samples, dkr)
        tree = judge.is_tree(b0.reg)
    except Exception as e:
        return {"obs": ["exc"], "viol": [], "outcome": "build_raises(C01's business):" + core.exc_site(e), "show": str(e)[:80]}
    seen_clause = set()
    for fw, layout, kw in _configs(case, tree):
        judged = layout == "flat" or tree or bool(case.get("judge_nontree"))
        tag = fw + "".join("+" + k[:4] for k in sorted(kw)) + ("/nested" if layout == "nested" else "")
        try:
            b = _build(case, samples, dkr)
            text = pipeline.render(b.reg, fw, layout, **kw)
            execs += 1
        except Exception as e:
            if judged:
                key = ("gen", type(e).__name__)
                if key not in seen_clause:
                    seen_clause.add(key)
                    viol.append(core.viol("generation_raises", f"{core.exc_site(e)}", shape, f"[{tag}] {type(e).__name__}: {e}"))
            outcomes.append("codegen_raises" if judged else "unjudged_nontree:raises")
            continue
        found = []
        try:
            with program.Program(text, fw) as prog:
                found = judge.structure_clauses(prog, b, fw)
                obs.append(core.digest(text))
        except program.LoadError as e:
            found = [("module_does_not_load", f"{e}")]
        if not judged:
            outcomes.append("unjudged_nontree:" + ("ok" if not found else found[0][0]))
            continue
        outcomes.append("ok" if not found else "bad")
        for clause, detail in found:
            # one report per (clause, framework family) per case: nested/sqlmodel repeats of the same clause are folded
            fam = "pydantic" if fw == "sqlmodel" else fw
            site = fam if layout == "flat" else fam + "/nested"
            if (clause, fam) in seen_clause and layout != "flat":
                continue
            if (clause, fam, layout) in seen_clause:
                continue
            seen_clause.add((clause, fam))
            seen_clause.add((clause, fam, layout))
            viol.append(core.viol(clause, site, shape, f"[{tag}] {detail} || {text[-350:]}"))
    return {"obs": obs, "viol": viol, "execs": execs, "trans": execs, "outcome": outcomes,
            "show": f"{len(b0.reg.models_map)} models, tree={tree}",
            "nontrivial": core.digest(case) if len(b0.reg.models_map) > 1 else None}


def run(tier, seed):
    r = core.Run(PROP, tier, seed)
    r.rule = ("E2: graph inputs (<=3 nodes quick, +4-node trees thorough) x merge {default, exact} x 5 frameworks x 2 layouts (+ option "
              "variants on <=2-node graphs); every realistic key string (<=3/4 symbols over 9 symbols, 27 reserved words with one symbol "
              "around) as object field, nested scalar field and list-of-objects field x 5 frameworks x unicode on/off; 46 values x "
              "attrs/dataclasses x converters on/off; state = distinct emitted program; non-trivial = inputs with >1 model")
    r.bounds = {"tier": tier}
    r.assumptions = ["nested layout judged only for tree-shaped model graphs (others executed, recorded as unjudged_nontree)",
                     "sqlmodel loaded against stubs/sqlmodel"]
    budget = 240 if tier == "quick" else 1500
    for case, res in core.pmap(execute, _cases(tier), chunksize=16, budget_s=budget):
        r.add(case, res)
    if core.pmap.capped:
        r.caps.append(f"wall budget {budget}s hit")
    return r.finish(replay_fn=execute)
