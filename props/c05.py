"""C05 - models are merged exactly along the configured similarity relation (DESIGN.md section 4, C05).

Engine E2 (graph enumerator): (A) every labelled similarity graph on n models through a table-driven
ModelCmp, under three reference shapes; (B) every family of 3/4 distinct key sets over {a..e} under
the shipped comparators.  Oracle: connected components (union-find written here) vs the registry after
the real merge_models(), fields = union, singletons untouched, returned list, pointer bookkeeping."""
import itertools

from mc import core, ir, pipeline
from json_to_models.dynamic_typing import ModelMeta, ModelPtr
from json_to_models.generator import MetadataGenerator
from json_to_models.registry import (ModelCmp, ModelFieldsEquals, ModelFieldsNumberMatch, ModelFieldsPercentMatch,
                                     ModelRegistry)

PROP = "C05"
SHAPES = ("star", "chain", "wrapped")
KEYSETS = ["".join(c) for n in range(1, 6) for c in itertools.combinations("abcde", n)]
CMPSETS = {
    "exact": [("exact",)],
    "percent_50": [("percent", 0.5)], "percent_75": [("percent", 0.75)], "percent_100": [("percent", 1.0)],
    "number_1": [("number", 1)], "number_2": [("number", 2)], "number_3": [("number", 3)],
    "exact|number_3": [("exact",), ("number", 3)],
    "percent_75|number_2": [("percent", 0.75), ("number", 2)],
    "percent_50|number_3": [("percent", 0.5), ("number", 3)],
    "percent_100|number_1": [("percent", 1.0), ("number", 1)],
    "default": None,
}
_GENERAL = list(CMPSETS)          # the comparator sets every family of space B is crossed with
CMPSETS.update({
    # a threshold of zero is a threshold: every pair is similar (used in space C only, where the document root is a node as well)
    "number_0": [("number", 0)], "percent_0": [("percent", 0.0)],
    # thresholds whose percentage is not a whole number of percent in binary (0.29 * 100 = 28.999..., 0.58 * 100 = 57.999...)
    "percent_29": [("percent", 0.29)], "percent_58": [("percent", 0.58)],
})


class TableCmp(ModelCmp):
    def __init__(self, table):
        self.table = table

    def cmp(self, fields_a, fields_b):
        return (frozenset(fields_a), frozenset(fields_b)) in self.table


def _edges(n, mask):
    pairs = list(itertools.combinations(range(n), 2))
    return [p for i, p in enumerate(pairs) if mask >> i & 1]


def _cases(tier):
    nmax = 5 if tier == "quick" else 6
    for n in range(2, nmax + 1):
        for mask in range(1 << (n * (n - 1) // 2)):
            for shape in SHAPES:
                yield {"space": "A", "n": n, "mask": mask, "shape": shape}
    fam = 3 if tier == "quick" else 4
    # space C: two merge_models calls on one registry (a second document is registered after the first merge). Each call must merge
    # along the relation evaluated on the key sets the models have when that call starts.
    six = ["".join(c) for n in (3, 4) for c in itertools.combinations("abcdef", n)]
    for trio in itertools.combinations(six if tier != "quick" else six[::2], 3):
        for cname in ("number_2", "number_3", "percent_75", "percent_50", "exact|number_3"):
            yield {"space": "C", "first": list(trio), "second": [], "cmp": cname}
            if tier != "quick":
                yield {"space": "C", "first": list(trio), "second": ["abf"], "cmp": cname}
    for a, b in itertools.combinations(six[::3], 2):
        for c in six[::2]:
            for cname in ("number_2", "number_3", "percent_75"):
                yield {"space": "C", "first": [a, b], "second": [c], "cmp": cname}
    # the same two-call histories with the first two models reached through ONE field (an object in one sample, a list of objects in
    # another): after the first merge two live pointers of that field target the merged model
    for a, b in itertools.combinations(six[::2] if tier == "quick" else six, 2):
        for c in (six[::3] if tier == "quick" else six[::2]):
            for cname in ("number_2", "number_3", "percent_75", "percent_50"):
                yield {"space": "C", "first": [a, b], "second": [c], "cmp": cname, "wrap": "obj_or_list"}
    # families with repeated key sets: identical key sets are similar only if a configured comparator says so
    for ks in KEYSETS:
        for cname in _GENERAL:
            yield {"space": "B", "sets": [ks, ks], "cmp": cname}
            for other in KEYSETS[::3]:
                if other != ks:
                    yield {"space": "B", "sets": [ks, other, ks], "cmp": cname}
    # pairs whose shared-key ratio lies just below / at / above such a threshold (2/7 = 0.2857 < 0.29 <= 3/10; 4/7 = 0.571 < 0.58 <= 7/12)
    for cname, sets in (("percent_29", ["abcd", "abefg"]), ("percent_29", ["abcdef", "abcghij"]), ("percent_29", ["abc", "abde", "fg"]),
                        ("percent_58", ["abcde", "abcdfg"]), ("percent_58", ["abcdefg", "abcdefghijkl"]), ("percent_58", ["abcd", "abce", "fgh"]),
                        ):
        yield {"space": "B", "sets": sets, "cmp": cname}
    for first in (["ab", "cd"], ["a", "bc", "def"], ["abc", "abd"], ["abcd", "e"]):
        for cname in ("number_0", "percent_0", "exact|number_3"):
            yield {"space": "C", "first": first, "second": [], "cmp": cname}
            yield {"space": "C", "first": first, "second": ["xyz"], "cmp": cname}
    # keys whose text contains the separators a careless identity of a key SET would use (", ", ",", "|", " "): distinct key sets stay
    # distinct whatever their joined spelling
    pk = ["a", "b", "c", "a,b", "b,c", "a, b", "a|b", "a b"]
    psets = [list(c) for n in (1, 2, 3) for c in itertools.combinations(pk, n)]
    for k in (2, 3):
        for sets in itertools.combinations(psets, k):
            if k == 3 and (tier == "quick" and sum(len(x) for x in sets) > 5):
                continue
            if not any(len(key) > 1 for ks in sets for key in ks):
                continue
            for cname in ("exact", "number_1", "number_2", "percent_50", "percent_100"):
                yield {"space": "B", "sets": [list(x) for x in sets], "cmp": cname}
    for k in range(2, fam + 1):
        for sets in itertools.combinations(KEYSETS, k):
            for cname in _GENERAL:
                if tier == "quick" and k == 3 and cname in ("percent_50|number_3", "percent_100|number_1", "number_3"):
                    continue
                yield {"space": "B", "sets": list(sets), "cmp": cname}


def _components(n, edges):
    parent = list(range(n))

    def find(x):
        while parent[x] != x:
            parent[x] = parent[parent[x]]
            x = parent[x]
        return x
    for a, b in edges:
        parent[find(a)] = find(b)
    comps = {}
    for i in range(n):
        comps.setdefault(find(i), []).append(i)
    return sorted(comps.values())


def _sample_A(n, shape):
    """JSON samples that induce n models with pairwise distinct key sets + a root"""
    if shape == "star":
        return [{f"m{i}": {f"a{i}": 1, f"b{i}": "x"} for i in range(n)}], [{f"a{i}", f"b{i}"} for i in range(n)]
    if shape == "chain":
        keysets = []
        obj = None
        for i in reversed(range(n)):
            o = {f"a{i}": 1}
            ks = {f"a{i}"}
            if obj is not None:
                o["next"] = obj
                ks.add("next")
            keysets.insert(0, ks)
            obj = o
        return [{"head": obj}], keysets
    if shape == "wrapped":
        s1, s2 = {}, {}
        for i in range(n):
            o = {f"a{i}": 1, f"b{i}": [1]}
            w = i % 4
            if w == 0:
                s1[f"m{i}"] = [o]; s2[f"m{i}"] = []
            elif w == 1:
                s1[f"m{i}"] = o; s2[f"m{i}"] = None
            elif w == 2:
                s1[f"m{i}"] = o; s2[f"m{i}"] = 5
            else:
                s1[f"m{i}"] = [[o]]
        return [s1, s2], [{f"a{i}", f"b{i}"} for i in range(n)]
    raise ValueError(shape)


def _walk_ptrs(reg):
    """every ModelPtr reachable from the fields of registered models: {id(ptr): (ptr, holder model)}"""
    found = {}

    def rec(t, holder):
        k = ir.kind(t)
        if k == "ptr":
            found[id(t)] = (t, holder)
        elif k in ("opt", "list", "dict"):
            rec(t.type, holder)
        elif k in ("union", "tuple"):
            for m in t.types:
                rec(m, holder)
    for m in reg.models:
        for name, t in m.type.items():
            rec(t, m)
    return found


def _judge(reg, root_ptr, before, keysets, comps, ret, shape_tokens, site):
    """before: list of ModelMeta for the n models (in node order)"""
    viol = []

    def V(clause, detail):
        viol.append(core.viol(clause, site, shape_tokens, detail))
    registered = set(map(id, reg.models))
    by_index = reg.models_map
    for idx, m in by_index.items():
        if m.index != idx:
            V("registry_index_mismatch", f"{idx} -> {m.index}")
    # partition
    new_models = []
    for comp in comps:
        union_keys = set().union(*(keysets[i] for i in comp))
        if len(comp) == 1:
            m = before[comp[0]]
            if id(m) not in registered:
                V("untouched_model_changed", f"singleton node {comp[0]} is no longer registered")
            elif set(m.type.keys()) != keysets[comp[0]]:
                V("untouched_model_changed", f"singleton node {comp[0]} keys {sorted(m.type.keys())}")
            continue
        for i in comp:
            if id(before[i]) in registered:
                V("similar_models_not_merged", f"node {i} of component {comp} still registered")
        cands = [m for m in reg.models if id(m) not in set(map(id, before)) and m is not root_ptr.type
                 and set(m.type.keys()) == union_keys]
        if len(cands) != 1:
            V("merged_fields_not_union", f"component {comp}: expected one new model with keys {sorted(union_keys)}, "
                                         f"registry has {[sorted(m.type.keys()) for m in reg.models]}")
        else:
            new_models.append((cands[0], comp))
    n_expected = 1 + len(comps)
    if len(by_index) != n_expected:
        V("partition_mismatch", f"{len(by_index)} models registered, expected {n_expected} (components {comps})")
    # returned list
    try:
        def node_of(x):
            return next((i for i, m in enumerate(before) if m is x), -1)
        got = sorted((sorted(node_of(x) for x in group), id(nm)) for nm, group in ret)
    except Exception as e:  # unexpected structure of the return value
        got = f"unreadable: {e}"
    want = sorted((sorted(comp), id(nm)) for nm, comp in new_models)
    multi = [c for c in comps if len(c) > 1]
    if len(new_models) == len(multi) and got != want:
        V("replacement_list_mismatch", f"returned {[g[0] for g in got] if isinstance(got, list) else got}, expected {[w[0] for w in want]}")
    for nm, group in ret:
        if id(nm) not in registered:
            V("replacement_list_mismatch", "returned model is not registered")
    # references
    found = _walk_ptrs(reg)
    for pid, (ptr, holder) in found.items():
        tgt = ptr.type
        if not isinstance(tgt, ModelMeta) or by_index.get(tgt.index) is not tgt:
            V("dangling_reference", f"pointer in {holder} field {ptr.parent_field_name} -> {tgt} not registered")
        if ptr.parent is not holder:
            V("pointer_parent_stale", f"pointer in {holder} has parent {ptr.parent}")
    # the bookkeeping sets are references too (naming and layout follow them): both ends registered.
    # Equality with the pointers actually present in the field types is NOT demanded: the statement
    # does not ask for it and the code legitimately keeps pointers of de-duplicated union members.
    for m in reg.models:
        for p in list(m.pointers) + list(m.child_pointers):
            if by_index.get(p.type.index) is not p.type:
                V("dangling_reference", f"bookkeeping pointer of {m} -> {p.type} not registered")
            if p.parent is not None and by_index.get(p.parent.index) is not p.parent:
                V("dangling_reference", f"bookkeeping pointer of {m} has unregistered parent {p.parent}")
    return viol


def _rel_for(cname):
    spec = CMPSETS[cname] or [("percent", 0.7), ("number", 10)]

    def rel(a, b):
        for c in spec:
            if c[0] == "exact" and a == b:
                return True
            if c[0] == "percent" and len(a & b) * 1000 >= int(round(c[1] * 1000)) * len(a | b):
                return True
            if c[0] == "number" and len(a & b) >= c[1]:
                return True
        return False
    return rel


def _execute_two_calls(case):
    rel = _rel_for(case["cmp"])
    gen = MetadataGenerator(str_types_registry=pipeline.make_str_registry())
    reg = ModelRegistry(*pipeline.make_cmps(CMPSETS[case["cmp"]]))
    tokens = [f"first:{s}" for s in case["first"]] + [f"second:{s}" for s in case["second"]]
    site = "C:" + case["cmp"]
    viol = []
    docs = [[{f"m{i}": {k: 1 for k in ks} for i, ks in enumerate(case["first"])}],
            [{f"n{i}": {k: 1 for k in ks} for i, ks in enumerate(case["second"])}]]
    if case.get("wrap") == "obj_or_list":
        a, b = case["first"][:2]
        docs[0] = [{"x": {k: 1 for k in a}}, {"x": [{k: 1 for k in b}]}]
        tokens = tokens + ["wrap:obj_or_list"]
    summary = []
    for call, doc in enumerate(docs):
        if doc[0]:
            reg.process_meta_data(gen.generate(*doc), model_name=f"Doc{call}")
        before = list(reg.models)
        keysets = [set(m.type.keys()) for m in before]
        n = len(before)
        edges = [(i, j) for i, j in itertools.combinations(range(n), 2) if rel(keysets[i], keysets[j])]
        comps = _components(n, edges)
        try:
            ret = reg.merge_models(gen)
        except Exception as e:
            sx = core.exc_site(e)
            return {"obs": ["exc:" + sx], "viol": [core.viol("merge_raises", site + ":" + sx, tokens, f"call {call}: {type(e).__name__}: {e}")],
                    "outcome": "raises", "show": str(e)[:100]}
        # _judge expects a root that is not a node; here every registered model is a node, so pass a dummy root
        class _NoRoot:
            type = None
        found = _judge(reg, _NoRoot, before, keysets, comps, ret, tokens + [f"call:{call}"], site)
        # _judge counts one extra model for the root: correct the expectation for this space
        found = [v for v in found if v["clause"] != "partition_mismatch"]
        if len(reg.models_map) != len(comps):
            found.append(core.viol("partition_mismatch", site, tokens + [f"call:{call}"],
                                   f"call {call}: {len(reg.models_map)} models registered, expected {len(comps)} (components {comps} of {[sorted(k) for k in keysets]})"))
        viol += found
        summary.append((len(before), len(reg.models_map)))
    obs = core.digest([case["first"], case["second"], case["cmp"], summary])
    return {"obs": [obs], "viol": viol, "outcome": f"calls:{summary}", "show": f"{case['first']} then {case['second']} under {case['cmp']}: {summary}",
            "nontrivial": obs if summary[1][0] != summary[1][1] else None}


def execute(case):
    if case["space"] == "C":
        return _execute_two_calls(case)
    if case["space"] == "A":
        n, shape = case["n"], case["shape"]
        edges = _edges(n, case["mask"])
        samples, keysets = _sample_A(n, shape)
        fks = [frozenset(k) for k in keysets]
        table = set()
        for a, b in edges:
            table.add((fks[a], fks[b]))
            table.add((fks[b], fks[a]))
        cmps = (TableCmp(table),)
        tokens = [f"e{a}{b}" for a, b in edges]
        site = "A:" + shape
    else:
        sets = case["sets"]
        n = len(sets)
        samples = [{f"m{i}": {k: 1 for k in ks} for i, ks in enumerate(sets)}]
        keysets = [set(ks) for ks in sets]
        cmps = pipeline.make_cmps(CMPSETS[case["cmp"]])
        spec = CMPSETS[case["cmp"]] or [("percent", 0.7), ("number", 10)]

        def rel(a, b):
            for c in spec:
                if c[0] == "exact" and a == b:
                    return True
                if c[0] == "percent" and len(a & b) * 1000 >= int(round(c[1] * 1000)) * len(a | b):
                    return True
                if c[0] == "number" and len(a & b) >= c[1]:
                    return True
            return False
        edges = [(i, j) for i, j in itertools.combinations(range(n), 2) if rel(keysets[i], keysets[j])]
        nm = [s if isinstance(s, str) else "{" + ";".join(s) + "}" for s in sets]
        tokens = [f"{nm[i]}~{nm[j]}" for i, j in itertools.combinations(range(n), 2) if rel(keysets[i], keysets[j])] if not all(isinstance(s, str) for s in sets) \
            else [f"{a}~{b}" for a, b in itertools.combinations(sorted(sets), 2) if rel(set(a), set(b))]
        tokens = tokens + [f"k:{x}" for x in nm] + (["dup"] if len(set(nm)) < len(nm) else [])
        site = "B:" + case["cmp"]
    gen = MetadataGenerator(str_types_registry=pipeline.make_str_registry())
    reg = ModelRegistry(*cmps)
    meta = gen.generate(*samples)
    root = reg.process_meta_data(meta, model_name="Root")
    # node order: the model of node i
    before = []
    if case["space"] == "B":
        for i in range(n):
            before.append(root.type.type[f"m{i}"].type)      # the model the root field m<i> points to
    else:
        for ks in keysets:
            ms = [m for m in reg.models if set(m.type.keys()) == ks]
            if len(ms) != 1:
                raise core.HarnessError(f"driver: key set {ks} matched {len(ms)} models")
            before.append(ms[0])
    comps = _components(n, edges)
    try:
        ret = reg.merge_models(gen)
    except Exception as e:
        s = core.exc_site(e)
        return {"obs": ["exc:" + s], "viol": [core.viol("merge_raises", site + ":" + s, tokens, f"{type(e).__name__}: {e}")],
                "outcome": "raises", "show": str(e)[:100]}
    viol = _judge(reg, root, before, keysets, comps, ret, tokens, site)
    part = tuple(tuple(c) for c in comps)
    obs = core.digest([case["space"], case.get("shape"), n, sorted(edges), part, len(reg.models_map)])
    return {"obs": [obs], "viol": viol, "outcome": f"{len([c for c in comps if len(c) > 1])}_groups",
            "show": f"edges={edges} components={comps} models_after={len(reg.models_map)}",
            "nontrivial": obs if any(len(c) > 2 for c in comps) or len([c for c in comps if len(c) > 1]) > 1 else None}


def run(tier, seed):
    r = core.Run(PROP, tier, seed)
    r.rule = ("E2: (A) all labelled similarity graphs on n<=5 (quick) / n<=6 (thorough) models through a table-driven comparator "
              "x 3 reference shapes; (B) all families of <=3/<=4 distinct key sets over {a..e} x shipped comparator sets; state = "
              "(similarity graph, resulting partition); non-trivial = a component of size >=3 or >=2 merge groups")
    r.bounds = {"tier": tier, "n_max": 5 if tier == "quick" else 6}
    r.assumptions = ["the relation is computed on original key sets; thresholds use exactly representable ratios"]
    budget = 240 if tier == "quick" else 1500
    for case, res in core.pmap(execute, _cases(tier), chunksize=256, budget_s=budget):
        r.add(case, res)
    if core.pmap.capped:
        r.caps.append(f"wall budget {budget}s hit")
    return r.finish(replay_fn=execute)
