"""C12 - flat and nested layouts describe the same models (DESIGN.md section 4, C12).

E2: graph-shaped inputs x merge policies x frameworks, both layouts generated from fresh registries
by the real compose_models / compose_models_flat / generate_code and executed.  Oracle: flat layout
emits each registered model exactly once with the root first (all inputs); for tree-shaped graphs
the nested module has the same class table (name, fields, evaluated annotations, defaults) and every
class sits inside the class that references it."""
import itertools
import typing

from mc import alphabet as A
from mc import core, ir, judge, pipeline, program

PROP = "C12"
FWS = ["base", "pydantic", "sqlmodel", "attrs", "dataclasses"]


def _cases(tier):
    specs = list(A.graph_specs(3))
    specs += [g for g in A.graph_specs(4, payloads=("P1", "P3", "P4"), wrappers=("plain", "list")) if A.graph_size(g) == 4]
    # trees whose leaves need their own imports / carry a string with U+2028: what nesting and indentation can lose or alter
    typed = [g for g in A.graph_specs(4, payloads=("P1", "P3l", "P4d", "P3u"), wrappers=("plain",)) if A.graph_size(g) in (3, 4)]
    specs += typed if tier != "quick" else [g for g in typed if A.graph_size(g) == 3 or g[0] == "P1"]
    if tier != "quick":
        specs += [g for g in A.graph_specs(4, payloads=("P1", "P2", "P3", "P4"), wrappers=("plain", "list", "nullable", "dict"))
                  if A.graph_size(g) == 4 and g not in specs]
        specs += [g for g in A.graph_specs(5, max_depth=4, payloads=("P3", "P4"), wrappers=("plain", "list")) if A.graph_size(g) == 5]
    for spec in specs:
        for merge in ("default", "exact"):
            yield {"g": spec, "merge": merge, "fws": FWS if tier != "quick" else ["pydantic", "dataclasses", "attrs"]}
    for spec in A.sibling_graph_specs():
        yield {"g": spec, "merge": "default", "fws": ["pydantic", "dataclasses"]}
    # a policy under which structurally identical small models stay separate (twins under one parent)
    for spec in A.graph_specs(3, wrappers=("plain", "list")):
        yield {"g": spec, "merge": "number_10", "fws": ["pydantic", "dataclasses", "attrs"]}
    # several root models (what several -m names give): a forest of small trees with disjoint key sets; and the same with one
    # object shared by all roots (flat completeness; nested judged only when tree-shaped)
    small = [g for g in A.graph_specs(2, payloads=("P1", "P3"), wrappers=("plain", "list"))]
    for g1 in small:
        for g2 in small:
            for shared in (False, True):
                yield {"roots": [g1, g2], "shared": shared, "merge": "default", "fws": ["pydantic", "dataclasses"]}
    for trio in itertools.product(small[:4], repeat=3):
        yield {"roots": list(trio), "shared": False, "merge": "default", "fws": ["pydantic", "attrs"]}
        yield {"roots": list(trio), "shared": True, "merge": "default", "fws": ["dataclasses"]}
    # a scalar key spelled exactly like the class name generated for a later branch (Item / items): what a name-conversion memo
    # shared between generator objects would confuse; several sub-trees are rendered (and released) before the clashing class
    for branches in (1, 2, 3, 6):
        for word, plural in (("Item", "items"), ("Owner", "owner"), ("Tag", "tags")):
            data = {}
            for i in range(branches):
                data[f"a{i}"] = {f"b{i}": {word: i, f"q{i}": 2, f"r{i}": "x"}, f"z{i}": 1.5}
            data[plural] = [{"x": 1, "y": "s"}]
            for merge in ("exact", "default"):
                yield {"j": [data], "merge": merge, "fws": ["pydantic", "dataclasses", "attrs"]}
    # nested models whose generated class name means something to a framework (pydantic reads an inner `class Config`)
    for key in ("config", "configs", "Config", "meta", "fields", "model"):
        val = {"debug": 1, "name": "x"}
        for data in ({key: val, "v": 1}, {key: [val], "v": 1}, {"outer": {key: val, "w": 2}, "v": 1}):
            yield {"j": [data], "merge": "default", "fws": ["pydantic", "sqlmodel", "dataclasses"], "once": True}
    for v in A.VALUE_NAMES:
        for v2 in A.VALUE_NAMES[:20] if tier == "quick" else A.VALUE_NAMES:
            yield {"h": [v, v2], "merge": "default", "fws": ["pydantic", "base"]}


def _suffix_keys(v, sfx):
    if isinstance(v, dict):
        return {k + sfx: _suffix_keys(x, sfx) for k, x in v.items()}
    if isinstance(v, list):
        return [_suffix_keys(x, sfx) for x in v]
    return v


def _roots(case):
    roots = {}
    for i, g in enumerate(case["roots"]):
        samples = [_suffix_keys(o, f"_r{i}") for o in A.graph_samples(g)]
        if case.get("shared"):
            for o in samples:
                o["owner"] = {"login": "x", "uid": 1, "url": "u"}
        roots[f"Root{i}"] = samples
    return roots


def _build(case, samples):
    if "roots" in case:
        return pipeline.build_roots(_roots(case), types=pipeline.ALL_TYPES, dkr=[r"k\d"], merge=case["merge"])
    return pipeline.build(samples, types=pipeline.ALL_TYPES, dkr=[r"k\d"], merge=case["merge"])


def _samples(case):
    if "roots" in case:
        return None
    if "j" in case:
        import copy
        return copy.deepcopy(case["j"])
    if "g" in case:
        return A.graph_samples(case["g"])
    return [A.obj1(n) for n in case["h"]]


def _hint_repr(h, classes):
    if isinstance(h, type) and h in classes:
        return "<model %s>" % h.__name__
    o = typing.get_origin(h)
    if o is None:
        return getattr(h, "__name__", None) or repr(h)
    args = [_hint_repr(a, classes) for a in typing.get_args(h)]
    if o is typing.Union or o is typing.Literal:
        args = sorted(map(str, args))
    return f"{getattr(o, '__name__', str(o))}[{', '.join(map(str, args))}]"


def class_table(prog, b, fw):
    mapping, problems = program.model_classes(prog, b.reg)
    if problems:
        return None, f"model_without_unique_class {problems}"
    classes = {cls for idx, (q, cls) in mapping.items()}
    rows = set()
    for idx, (qual, cls) in mapping.items():
        try:
            hints = prog.hints(qual)
        except Exception as e:
            return None, f"annotation_unresolvable {qual}: {e}"
        for f in program.field_table(cls, fw):
            d = ("factory:" + getattr(f.factory, "__name__", "?")) if f.factory else (repr(f.default) if f.has_default else "<required>")
            rows.add((cls.__name__, f.name, f.key, _hint_repr(hints.get(f.name), classes), d))
        if not program.field_table(cls, fw):
            rows.add((cls.__name__, "<no fields>", "", "", ""))
    return rows, None


def execute(case):
    samples = _samples(case)
    shape = ["G" + A.graph_name(case["g"])] if "g" in case else (list(case["h"]) if "h" in case else ["J" + core.digest(case["j"])] if "j" in case else
                                                               ["R" + A.graph_name(g) for g in case["roots"]] + (["shared_owner"] if case.get("shared") else []))
    viol, obs, outcomes = [], [], []
    execs = 0
    seen = set()

    def V(clause, site, detail):
        if "j" in case and not case.get("once"):
            site = "repeated_rendering"      # which repetition / framework shows it first depends on allocator state: one site for all
        if (clause, site) in seen:
            return
        seen.add((clause, site))
        viol.append(core.viol(clause, site, shape, detail))
    # "j" cases are rendered several times in a row inside one process: state that outlives a generator object (a memo keyed by an
    # address that the allocator hands out again) shows up from the second repetition on, in the worker and in the replay alike
    fws = list(case["fws"]) * (4 if "j" in case and not case.get("once") else 1)
    for fw in fws:
        fam = "pydantic" if fw == "sqlmodel" else fw
        progs = {}
        tree = None
        for layout in ("flat", "nested"):
            try:
                b = _build(case, samples)
                tree = judge.is_tree(b.reg)
                single_root = judge.n_roots(b.reg) == 1
                text = pipeline.render(b.reg, fw, layout)
                execs += 1
            except Exception as e:
                if layout == "flat" or tree:
                    V("generation_raises", f"{layout}:{core.exc_site(e)}", f"[{fw}] {type(e).__name__}: {e}")
                outcomes.append(f"{layout}:raises")
                continue
            judged = layout == "flat" or tree
            try:
                prog = program.Program(text, fw)
                prog.__enter__()
            except program.LoadError as e:
                outcomes.append(f"{layout}:does_not_load" + ("" if judged else "(unjudged non-tree)"))
                if judged:
                    V("module_does_not_load", f"{layout}:{fam}", f"[{fw}] {e} || {text[-300:]}")
                continue
            progs[layout] = (prog, b, text)
            defs = prog.class_defs()
            if judged:
                names = [q[-1] for q, _ in defs]
                want = sorted(m.name for m in b.reg.models)
                if sorted(names) != want:
                    V("model_not_emitted_exactly_once", f"{layout}", f"[{fw}] classes {sorted(names)} vs models {want} || {text[-300:]}")
                if layout == "flat" and tree and single_root and defs and defs[0][0][-1] != b.root.type.name:
                    V("flat_root_not_first", "flat", f"[{fw}] first class {defs[0][0][-1]}, root model {b.root.type.name}")
                if layout == "flat" and any(len(q) > 1 for q, _ in defs):
                    V("flat_layout_nests_a_class", "flat", f"[{fw}] {[q for q, _ in defs]}")
            obs.append(core.digest(text))
        if tree and "flat" in progs and "nested" in progs:
            (pf, bf, tf), (pn, bn, tn) = progs["flat"], progs["nested"]
            rf, ef = class_table(pf, bf, fw)
            rn, en = class_table(pn, bn, fw)
            if ef or en:
                V("class_table_unavailable", fam, f"[{fw}] flat: {ef} nested: {en}")
            elif rf != rn:
                V("nested_class_table_differs_from_flat", fam, f"[{fw}] only flat: {sorted(rf - rn)[:3]} only nested: {sorted(rn - rf)[:3]}")
            for clause, detail in judge.placement_clauses(pn, bn, "nested"):
                V(clause, fam, f"[{fw}] {detail} || {tn[-300:]}")
            outcomes.append("tree:compared")
        elif tree is False:
            outcomes.append("non_tree:flat_only")
        for prog, _, _ in progs.values():
            prog.__exit__(None, None, None)
    return {"obs": obs, "viol": viol, "execs": execs, "trans": execs, "outcome": outcomes, "show": f"tree={tree}",
            "nontrivial": core.digest(case) if tree and "g" in case and A.graph_size(case["g"]) >= 3 else None}


def run(tier, seed):
    r = core.Run(PROP, tier, seed)
    r.rule = ("E2: all graph inputs with <=3 nodes, 4-node trees over a reduced alphabet (thorough: full alphabet, 5-node trees over 2 payloads), "
              "sibling family, pairs of values; x merge {default, exact} x frameworks; both layouts from fresh registries; state = emitted "
              "program; non-trivial = tree-shaped model graphs from inputs with >=3 nodes")
    r.bounds = {"tier": tier}
    r.assumptions = ["nested layout judged only when the model graph is tree-shaped (computed from the registry)",
                     "class names are compared across layouts by name (both layouts name models identically)"]
    for case, res in core.pmap(execute, _cases(tier), chunksize=16, budget_s=240 if tier == "quick" else 1500):
        r.add(case, res)
    if core.pmap.capped:
        r.caps.append("wall budget hit")
    return r.finish(replay_fn=execute)
