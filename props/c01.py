"""C01 - generated models accept every sample they were inferred from (DESIGN.md section 4, C01).

E1 history-tree explorer: every sample history within the bound is run through the real pipeline
(fresh generator / registry / code generator per execution); oracle = mc.ir.admits on the IR after
generate() and after merge_models(), structural acceptance of the emitted classes, and
pydantic's own parse_obj for pydantic/sqlmodel output."""
import itertools

from mc import alphabet as A
from mc import core, ir, judge, pipeline, program

PROP = "C01"
FWS = ["base", "pydantic", "sqlmodel", "attrs", "dataclasses"]
SUBSETS = [list(c) for n in range(0, 7) for c in itertools.combinations(pipeline.ALL_TYPES, n)]
DICT_OBJS = [
    ["J", {"m": {"a1": 1, "a2": "x"}}], ["J", {"m": {"a1": 1, "xx": [1]}}], ["J", {"m": {"b1": None}}],
    ["J", {"m": {}}], ["J", {"m": None}], ["J", {"dict_field": {"p": {"q": 1}, "r": {"q": "s"}}}],
    ["J", {"m": [{"a1": 1}, {"a2": {"a1": 2}}]}], ["J", {"m": 1}],
]
DICT_OPTS = [
    {"dkr": None, "dkf": None}, {"dkr": [r"a\d"], "dkf": None}, {"dkr": [r"[ab]\d", r"\w+"], "dkf": None},
    {"dkr": None, "dkf": ["m"]}, {"dkr": [r"a\d"], "dkf": ["dict_field"]},
]


def _cases(tier):
    one = A.VALUE_NAMES + [A.ABSENT]
    two = [["2", a, b] for a in A.TWO_FIELD for b in A.TWO_FIELD]
    atoms = A.ATOM_NAMES + [A.ABSENT]
    if tier == "quick":
        for h in A.histories(one + two, 2):
            yield {"h": h, "cfg": "full"}
        for h in A.histories(atoms, 3, 3):
            yield {"h": h, "cfg": "full"}
        lens_reg, gmax, hd = 2, 3, 2
    else:
        for h in A.histories(one + two, 2):
            yield {"h": h, "cfg": "full+opts"}
        for h in A.histories(one, 3, 3):
            yield {"h": h, "cfg": "full"}
        for h in A.histories(atoms, 4, 4):
            yield {"h": h, "cfg": "ir+pydantic"}
        lens_reg, gmax, hd = 3, 4, 3
    # registry axis: all 64 subsets of the six pseudo-types x histories over the string atoms
    for sub in SUBSETS:
        for h in A.histories(A.STRING_ATOMS, lens_reg):
            yield {"h": h, "cfg": "ir+pydantic", "types": sub}
    # merge-policy axis on graph inputs
    for spec in A.graph_specs(gmax):
        for merge in pipeline.MERGE_POLICIES:
            yield {"h": [["G", spec]], "cfg": "graph", "merge": merge, "dkr": [r"k\d"]}
    for spec in A.sibling_graph_specs():
        yield {"h": [["G", spec]], "cfg": "graph", "merge": "default", "dkr": [r"k\d"]}
    # the same value kinds under keys that need an alias / metadata (renamed AND optional AND container defaults)
    kvals = ["eobj", "elist", "int", "null", A.ABSENT, "O(k:int)", "L(int)", "s_int", "lit_a"]
    for key in ("userInfo", "class", "1st"):
        for h in A.histories([["K", key, v] for v in kvals], 2):
            yield {"h": h, "cfg": "renamed"}
    # merged models whose shared field varies
    for v0 in A.VARIED_ATOMS:
        for v1 in A.VARIED_ATOMS:
            for v2 in A.VARIED_ATOMS:
                if tier == "quick" and len({v0, v1, v2}) < 2:
                    continue
                yield {"h": [["J", A.varied_merge_samples(v0, v1, v2, False)[0]]], "cfg": "ir+pydantic+dc"}
    # four members of one merged class, one of them a list with an object that lacks the field: plain X, another kind and
    # Optional[X] meet in every relative order inside one merge
    for vs in itertools.product(A.VARIED_CHAIN_ATOMS, repeat=4):
        if len(set(vs)) < 2 or (tier == "quick" and len(set(vs)) > 3):
            continue
        for rows_at in range(4):
            yield {"h": [["J", A.varied_merge_chain(list(vs), rows_at)[0]]], "cfg": "ir+pydantic+dc"}
    # dict-option axis
    for opts in DICT_OPTS:
        for h in A.histories(DICT_OBJS, hd):
            yield {"h": h, "cfg": "ir+pydantic+dc", "dkr": opts["dkr"], "dkf": opts["dkf"]}
    # list-valued positions with many distinct literals that share a long sorted prefix (content-dependent identity of literal sets)
    pool = [f"s{i:02d}" for i in range(9)]
    for n in (3, 6, 7, 8):
        for wrap in ("list", "dict", "object_list"):
            a, b = pool[:n - 1], pool[:n - 2] + [pool[n - 1]]
            if wrap == "list":
                yield {"h": [["J", {"a": a}], ["J", {"a": b}]], "cfg": "ir+pydantic+dc"}
            elif wrap == "dict":
                yield {"h": [["J", {"m": {f"k{i}": v for i, v in enumerate(a)}}], ["J", {"m": {f"k{i}": v for i, v in enumerate(b)}}]],
                       "cfg": "ir+pydantic+dc", "dkr": [r"k\d"]}
            else:
                yield {"h": [["J", {"a": [{"t": a}, {"u": 1}]}], ["J", {"a": [{"t": b}]}]], "cfg": "ir+pydantic+dc"}
    # string grammar (shared with C09): every string alone, through the IR judge and the generated pydantic model (the framework's
    # own parser decides whether the annotated type admits the exact string that was observed)
    from props import c09
    gram = [(cls, st) for cls, st in c09.grammar(tier) if len(st) < 60]
    for cls, st in gram:
        yield {"h": [["S", cls, st]], "cfg": "ir+pydantic"}
    reps, seen = [], set()
    for cls, st in gram:
        k = (A.string_form(cls, st), core.jdump(c09.accept_row(st)))
        if k not in seen:
            seen.add(k)
            reps.append((cls, st))
    for (c1, s1), (c2, s2) in itertools.combinations(reps, 2):
        # two observations of one field: one representative per (reference form, accept signature)
        yield {"h": [["S", c1, s1], ["S", c2, s2]], "cfg": "ir+pydantic"}
    # characters that need escaping inside a Literal / alias: the generated model must admit the exact string
    for ch in ('"', "'", "\\", "\n", ",", "é", "\U0001F600", "\u2028", "\x85", " "):
        yield {"h": [["J", {"a": ch}]], "cfg": "full"}
        yield {"h": [["J", {"a": ch + "x"}], ["J", {"a": "y"}]], "cfg": "ir+pydantic+dc"}
        yield {"h": [["J", {"a": {"b": ch}}]], "cfg": "full"}
    # the root merges with its own list items (a recursive model keeps the explicit name and is registered again, last) while another
    # nested model generates the same name from its key
    for key in ("root", "roots"):
        for extra in ({}, {"tag": "t"}):
            rec = dict({"uid": 1, "name": "n", "children": [{"uid": 2, "name": "m", "children": []}], key: {"other": 1, "thing": "x"}}, **extra)
            yield {"h": [["J", rec]], "cfg": "full"}
            yield {"h": [["J", rec], ["J", {"uid": 3, "name": "k", "children": [], key: {"other": 2, "thing": "y"}}]], "cfg": "full"}
    # literal-limit axis
    for ml in (0, 1, 2, 3):
        for h in A.histories(["lit_a", "lit_b", "long", "null", "s_int", A.ABSENT], 3):
            yield {"h": h, "cfg": "ir+pydantic+dc", "max_literals": ml}


def _samples(case):
    out = []
    for s in case["h"]:
        if isinstance(s, list) and s[0] == "G":
            out.extend(A.graph_samples(s[1]))
        else:
            out.append(A.sample_from_symbol(s))
    return out


def _field_values(case):
    """{field: set of value-symbol names observed there} - the shape vocabulary of C01 findings"""
    fv = {}
    for s in case["h"]:
        if isinstance(s, str):
            fv.setdefault("a", set()).add(s)
        elif s[0] == "2":
            fv.setdefault("a", set()).add(s[1])
            fv.setdefault("b", set()).add(s[2])
        elif s[0] == "K":
            fv.setdefault("*", set()).update({"key:" + s[1], s[2]})
        elif s[0] == "S":
            fv.setdefault("a", set()).add(A.string_form(s[1], s[2]))
        else:
            fv.setdefault("*", set()).add(A.symbol_name(s))
    return fv


def _shape_at(fv, where):
    """shape for a violation located at a path like '$.a...' / 'sample#0 $.a: ...'; all values otherwise"""
    import re
    m = re.search(r"\$\.([A-Za-z_0-9]+)", where or "")
    if m and m.group(1) in fv and "*" not in fv:
        return sorted(fv[m.group(1)])
    return sorted(set().union(*fv.values())) if fv else []


def _tokens(case, clause, detail, text):
    """extra shape-class tokens (part of the committed abstraction function, DESIGN.md 2.3):
    registry contents when they differ from the full registry, and the one annotation pattern that
    pydantic.v1 itself mishandles."""
    import re
    out = []
    if "types" in case:
        out += [f"reg:-{t}" for t in pipeline.ALL_TYPES if t not in case["types"]]
    if clause == "parse_obj_fails" and re.search(r"not a valid (list|dict)", detail) and \
            re.search(r"Optional\[(List\[None\]|Dict\[str, None\])\]", text):
        out.append("ann:Optional[Container[None]]")
    return out


def _configs(case, tree):
    cfg = case["cfg"]
    ml = case.get("max_literals")
    base_kw = {} if ml is None else {"max_literals": ml}
    layouts = ["flat"] + (["nested"] if tree else [])
    out = []
    if cfg in ("full", "full+opts"):
        for fw in FWS:
            for lay in layouts:
                out.append((fw, lay, dict(base_kw)))
        for fw in ("pydantic", "dataclasses"):
            out.append((fw, "flat", dict(base_kw, convert_unicode=False)))
        if cfg == "full+opts":
            for fw in ("attrs", "dataclasses"):
                out.append((fw, "flat", dict(base_kw, post_init_converters=True)))
                out.append((fw, "flat", dict(base_kw, meta=True)))
            out.append(("attrs", "flat", dict(base_kw, convert_unicode=False)))
    elif cfg == "ir+pydantic":
        out.append(("pydantic", "flat", dict(base_kw)))
    elif cfg == "ir+pydantic+dc":
        out.append(("pydantic", "flat", dict(base_kw)))
        out.append(("dataclasses", "flat", dict(base_kw)))
    elif cfg == "renamed":
        out.append(("pydantic", "flat", dict(base_kw)))
        out.append(("sqlmodel", "flat", dict(base_kw)))
        out.append(("attrs", "flat", dict(base_kw, meta=True)))
        out.append(("dataclasses", "flat", dict(base_kw, meta=True)))
    elif cfg == "graph":
        for fw in ("pydantic", "dataclasses", "base"):
            for lay in layouts:
                out.append((fw, lay, dict(base_kw)))
    return out


def _build(case, samples):
    return pipeline.build(samples, types=case.get("types", pipeline.ALL_TYPES), dkr=case.get("dkr"),
                          dkf=case.get("dkf"), merge=case.get("merge", "default"))


def execute(case):
    samples = _samples(case)
    fv = _field_values(case)
    shape = _shape_at(fv, None)
    viol, obs, execs = [], [], 0
    show = None
    # ---- (a) + (b): IR level -------------------------------------------------------------------
    try:
        b = pipeline.build(samples, types=case.get("types", pipeline.ALL_TYPES), dkr=case.get("dkr"),
                           dkf=case.get("dkf"), merge=case.get("merge", "default"), do_merge=False, names=False)
        execs += 1
        for clause, path, tshape, vk, i in judge.ir_accepts(b.root, samples):
            viol.append(core.viol("ir:" + clause, f"after_generate:{tshape}", _shape_at(fv, path), f"sample#{i} {path} value {vk}; graph={ir.canon_graph([b.root])}"))
        b.reg.merge_models(b.gen)
        b.reg.generate_names()
        for clause, path, tshape, vk, i in judge.ir_accepts(b.root, samples):
            viol.append(core.viol("ir:" + clause, f"after_merge:{tshape}", _shape_at(fv, path), f"sample#{i} {path} value {vk}; graph={ir.canon_graph([b.root])}"))
        cg = ir.canon_graph([b.root])
        obs.append(core.digest(repr(cg)))
        show = repr(cg)[:240]
        tree = judge.is_tree(b.reg)
        n_models = len(b.reg.models_map)
    except Exception as e:
        site = core.exc_site(e)
        viol.append(core.viol("generation_raises", site, shape, f"{type(e).__name__}: {e}"))
        return {"obs": ["exc:" + site], "viol": viol, "execs": 1, "trans": len(samples), "outcome": "raises:" + site,
                "show": f"{type(e).__name__}: {e}"}
    # ---- (c) + (d): code level, one fresh pipeline per configuration -----------------------------
    outcomes = []
    flat_clauses = {}   # (fw, options) -> clauses already reported for the flat layout of this case
    code_viol = []

    def report(fwkey, layout, v):
        # A violation seen under a variant configuration (nested layout, sqlmodel, option switches) that
        # merely repeats the clause already reported for the plain flat run of the same framework family
        # on the same case is the same defect seen twice; only differences are reported under their own site.
        fam = "pydantic" if fwkey[0] == "sqlmodel" else fwkey[0]
        seen = flat_clauses.setdefault(fam, set())
        plain = layout == "flat" and fwkey[1] == "{}" and fwkey[0] != "sqlmodel"
        if plain:
            seen.add(v["clause"])
        elif v["clause"] in seen:
            return
        viol.append(v)

    for fw, layout, kw in _configs(case, tree):
        tag = fw + ("+conv" if kw.get("post_init_converters") else "") + ("+nouni" if kw.get("convert_unicode") is False else "") \
            + ("/" + layout if layout != "flat" else "")
        fwkey = (fw, core.jdump(kw))
        try:
            bb = _build(case, samples)
            text = judge.emit(bb, fw, layout, **kw)
            execs += 1
        except Exception as e:
            site = core.exc_site(e)
            report(fwkey, layout, core.viol("generation_raises", f"{tag}:{site}", shape, f"{type(e).__name__}: {e}"))
            outcomes.append("codegen_raises")
            continue
        try:
            with program.Program(text, fw) as prog:
                for clause, detail in judge.code_accepts(prog, bb, fw, samples):
                    report(fwkey, layout, core.viol("code:" + clause, tag, _shape_at(fv, detail) + _tokens(case, clause, detail, text),
                                                    detail + " || " + text[-300:]))
                obs.append(core.digest(text))
                outcomes.append("loaded")
        except program.LoadError as e:
            report(fwkey, layout, core.viol("code:module_does_not_load", f"{tag}:{e.stage}:{type(e.exc).__name__}", shape,
                                            f"{e} || {text[-400:]}"))
            outcomes.append("load_error")
    return {"obs": obs, "viol": viol, "execs": execs, "trans": len(samples) * max(1, execs),
            "outcome": outcomes or ["ir_only"], "show": show,
            "nontrivial": obs[0] if n_models > 1 or "union" in show or "opt" in show else None}


def run(tier, seed):
    r = core.Run(PROP, tier, seed)
    r.rule = ("E1: all sample histories (len<=2 over 63 object symbols + len 3 over atoms quick; len<=3 over 47 single-field "
              "symbols + len 4 over atoms thorough) x 5 frameworks x layouts, plus registry-subset, merge-policy, dict-option "
              "and literal-limit axes; non-trivial = distinct canonical model graph with >1 model or a union/optional")
    r.bounds = {"tier": tier}
    r.assumptions = ["sqlmodel judged against stubs/sqlmodel (pydantic.v1 forwarder)",
                     "pydantic.v1 parse_obj is the judge of value-level acceptance for pydantic/sqlmodel output",
                     "base framework: 'field without default' read as 'not annotated Optional'"]
    budget = 240 if tier == "quick" else 3000
    for case, res in core.pmap(execute, _cases(tier), chunksize=32, budget_s=budget):
        r.add(case, res)
    if core.pmap.capped:
        r.caps.append(f"wall budget {budget}s hit; enumeration cut")
    return r.finish(replay_fn=execute)
