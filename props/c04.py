"""C04 - emitted classes denote exactly the inferred model graph (DESIGN.md section 4, C04).

Per emitted program: the class's field table (pydantic __fields__, attr.fields, dataclasses.fields,
__annotations__ for base) is compared field by field with an independent rendering of the IR
(mc.judge.denote): recovered key set, exact alias/metadata, evaluated annotation == denoted typing
object, default iff Optional, list/dict factory vs None."""
from mc import alphabet as A
from mc import core, ir, judge, pipeline, program

PROP = "C04"
FWS = ["base", "pydantic", "sqlmodel", "attrs", "dataclasses"]
LIT_SETS = [["lit_a"], ["lit_a", "lit_b"], ["lit_a", "lit_b", "long"], ["lit_a", "s_int"], ["lit_a", "null"], ["lit_a", "L(lit_b)"],
            # characters that a different escaping would alter: astral, line separators, quotes, backslash
            [["J", {"a": f"v{i:02d}"}] for i in range(15)], [["J", {"a": [f"v{i:02d}" for i in range(15)]}]], [["J", {"a": f"v{i:02d}"}] for i in range(14)],
            [["J", {"a": "\U0001F600"}], ["J", {"a": "x\u2028y"}]], [["J", {"a": 'q"\\'}], ["J", {"a": "\U0001D400b"}], "lit_a"]]
KEYS = ["a", "aB", "a-b", "class", "list", "Optional", "field", "a b", "é", "яя", "a\"b", "a\\b", "a'b", "a\tb", "1a", "id", "pk",
        "A", "a.b", "__a", "date", "type_", "aB1", "PK", "p-k", "Id", "ID"]


def _cases(tier):
    one = A.VALUE_NAMES + [A.ABSENT]
    two = [["2", a, b] for a in A.TWO_FIELD for b in A.TWO_FIELD]
    if tier == "quick":
        for h in A.histories(one + two, 1):
            yield {"h": h, "opts": "std"}
        for h in A.histories(one, 2, 2):
            yield {"h": h, "opts": "std"}
    else:
        for h in A.histories(one + two, 2):
            yield {"h": h, "opts": "std"}
    if tier != "quick":
        for h in A.histories(one, 3, 3):
            yield {"h": h, "opts": "std"}
    for spec in A.graph_specs(3 if tier == "quick" else 4, wrappers=A.WRAPPERS if tier == "quick" else ("plain", "list", "nullable")):
        for merge in ("default", "exact"):
            yield {"h": [["G", spec]], "opts": "std", "merge": merge}
    for spec in A.sibling_graph_specs():
        yield {"h": [["G", spec]], "opts": "std", "merge": "default"}
    # a Literal value with a line-separator character inside a class that the nested layout indents
    for spec in A.graph_specs(3, payloads=("P1", "P3u"), wrappers=("plain", "list")):
        if "P3u" in A.graph_name(spec) and A.graph_size(spec) >= 2:
            yield {"h": [["G", spec]], "opts": "std", "merge": "default"}
    for lits in LIT_SETS:
        for ml in (0, 1, 2, 3, 10, 16):
            yield {"h": lits, "opts": "lit", "max_literals": ml}
    vals = ["int", "null", "L(int)", "O(k:int)", "eobj", "s_int", "lit_a", A.ABSENT]
    for k in KEYS:
        for v in vals[:4] if tier == "quick" else vals:
            for v2 in (None, A.ABSENT, "null"):
                yield {"h": [["KV", k, v]] + ([["KV", k, v2]] if v2 else []), "opts": "keys"}
    for h in A.histories(one, 2 if tier == "quick" else 2):
        if any(x.startswith("s_") or "s_int" in x for x in h):
            yield {"h": h, "opts": "conv"}


def _sample(sym):
    if isinstance(sym, list) and sym[0] == "KV":
        return {"zz": 1} if sym[2] == A.ABSENT else {sym[1]: A.value(sym[2]), "zz": 1}
    return A.sample_from_symbol(sym)


def _samples(case):
    out = []
    for s in case["h"]:
        if isinstance(s, list) and s[0] == "G":
            out.extend(A.graph_samples(s[1]))
        else:
            out.append(_sample(s))
    return out


def _configs(case, tree):
    o = case["opts"]
    lay = ["flat"] + (["nested"] if tree else [])
    if o == "std":
        for fw in FWS:
            for l in lay:
                yield fw, l, {}
    elif o == "lit":
        for fw in FWS:
            yield fw, "flat", {"max_literals": case["max_literals"]}
    elif o == "keys":
        for fw in FWS:
            for uni in (True, False):
                kw = {} if uni else {"convert_unicode": False}
                yield fw, "flat", kw
                if fw in ("attrs", "dataclasses"):
                    yield fw, "flat", dict(kw, meta=True)
        yield "pydantic", "nested", {}
    elif o == "conv":
        for fw in ("attrs", "dataclasses"):
            yield fw, "flat", {"post_init_converters": True}
            yield fw, "flat", {"post_init_converters": True, "meta": True}


def _shape(case):
    out = []
    for s in case["h"]:
        if isinstance(s, str):
            out.append(s)
        elif s[0] == "2":
            out += [s[1], s[2]]
        elif s[0] == "KV":
            if "key:" + s[1] not in out:
                out.append("key:" + s[1])
        else:
            out.append(A.symbol_name(s))
    if "max_literals" in case:
        out.append(f"ml:{case['max_literals']}")
    return out


def execute(case):
    samples = _samples(case)
    shape = _shape(case)
    viol, obs, outcomes = [], [], []
    dkr = [r"k\d"]
    try:
        b0 = pipeline.build(samples, types=pipeline.ALL_TYPES, dkr=dkr, merge=case.get("merge", "default"))
        tree = judge.is_tree(b0.reg)
    except Exception as e:
        return {"obs": ["exc"], "viol": [], "outcome": "build_raises(C01's business)", "show": str(e)[:80]}
    seen = set()
    execs = 0
    for fw, layout, kw in _configs(case, tree):
        tag = fw + "".join("+" + k[:4] for k in sorted(kw)) + ("/nested" if layout == "nested" else "")
        try:
            b = pipeline.build(samples, types=pipeline.ALL_TYPES, dkr=dkr, merge=case.get("merge", "default"))
            text = pipeline.render(b.reg, fw, layout, **kw)
            execs += 1
        except Exception:
            outcomes.append("codegen_raises(C01/C03)")
            continue
        try:
            with program.Program(text, fw) as prog:
                found = judge.denotation_clauses(prog, b, fw, max_literals=kw.get("max_literals", 10), meta_on=bool(kw.get("meta")),
                                                 convert_unicode=kw.get("convert_unicode", True))
                found += judge.placement_clauses(prog, b, layout)
                obs.append(core.digest(text))
        except program.LoadError:
            outcomes.append("does_not_load(C03)")
            continue
        if any(c == "model_without_unique_class" for c, _ in found):
            outcomes.append("structure_broken(C03/C11)")   # no class to compare with; judged by C03/C11
            continue
        outcomes.append("ok" if not found else "differs")
        fam = "pydantic" if fw == "sqlmodel" else fw
        for clause, detail in found:
            plain = layout == "flat" and not kw and fw != "sqlmodel"
            if (clause, fam) in seen and not plain:
                continue
            seen.add((clause, fam))
            viol.append(core.viol(clause, tag if not plain else fam, shape, f"[{tag}] {detail} || {text[-300:]}"))
    if case["opts"] in ("std", "lit") and len(case["h"]) <= 2:
        # the same inferred graph emitted several times in a row with different generators / layouts / limits: every emission
        # denotes the graph under ITS options (nothing rendered earlier may stick to the type objects)
        ml = case.get("max_literals")
        seq = [("attrs", "flat", {}), ("pydantic", "nested" if tree else "flat", {}), ("dataclasses", "flat", {} if ml is None else {"max_literals": ml}),
               ("pydantic", "flat", {"max_literals": 16}), ("base", "flat", {"max_literals": 0})]
        for fw, layout, kw in seq:
            tag = fw + "".join("+" + k[:4] for k in sorted(kw)) + ("/nested" if layout == "nested" else "") + "+reused_graph"
            try:
                text = pipeline.render(b0.reg, fw, layout, **kw)
                execs += 1
                with program.Program(text, fw) as prog:
                    found = judge.denotation_clauses(prog, b0, fw, max_literals=kw.get("max_literals", 10), meta_on=False, convert_unicode=True)
            except Exception:
                outcomes.append("reused:raises_or_does_not_load(C03/C14)")
                continue
            if any(c == "model_without_unique_class" for c, _ in found):
                continue
            for clause, detail in found:
                if (clause, "reused") in seen:
                    continue
                seen.add((clause, "reused"))
                viol.append(core.viol(clause, "reused_graph", shape, f"[{tag}] {detail} || {text[-300:]}"))
    return {"obs": obs, "viol": viol, "execs": execs, "trans": execs, "outcome": outcomes,
            "show": f"{len(b0.reg.models_map)} models tree={tree}", "nontrivial": core.digest(case) if len(obs) > 1 else None}


def run(tier, seed):
    r = core.Run(PROP, tier, seed)
    r.rule = ("every program emitted for: sample histories (len<=2 over 63 symbols; +len 3 thorough), graph inputs x merge, literal sets x "
              "max_literals {0,1,2,3,10,16}, 23 keys x value kinds x unicode/meta options, pseudo-typed histories x converters; x 5 "
              "frameworks x layouts; state = distinct emitted program; non-trivial = cases with >1 distinct program")
    r.bounds = {"tier": tier}
    r.assumptions = ["where the JSON key is not recoverable from the class by design (base; attrs/dataclasses without meta) fields are matched "
                     "to keys through the library's prepare_label (name correctness itself is C11's subject)",
                     "typing objects compare structurally; Union and Literal order-insensitively"]
    budget = 240 if tier == "quick" else 1500
    for case, res in core.pmap(execute, _cases(tier), chunksize=16, budget_s=budget):
        r.add(case, res)
    if core.pmap.capped:
        r.caps.append(f"wall budget {budget}s hit")
    return r.finish(replay_fn=execute)
