"""C17 - a failing run reports failure and leaves existing output untouched (DESIGN.md section 4, C17).

Engine E7 (fault enumeration): (1) every fault kind x position of the faulty file x output mode as
real `python -m json_to_models` subprocesses; (2) injection sweep: for several inputs x output modes
the real main() runs in a forked child under a trace function that raises InjectedFault at the k-th
call event inside json_to_models, for EVERY k up to the number of call events of the fault-free run."""
import json
import os
import shutil
import sys
import tempfile

from mc import clidrv, core, pipeline

PROP = "C17"
SENTINEL = b"# previous content \xe2\x9c\x93 - must survive a failing run\nKEEP = 1\n"
GOOD = [[{"id": 1, "name": "a", "sub": {"k": 1}}, {"id": 2, "name": "b", "sub": None}], [{"id": 3, "name": "c", "extra": [1.5]}],
        {"id": 4, "name": "d", "sub": {"k": 2, "j": "x"}}]
GEN_MODULE = '''
from json_to_models.models.pydantic import PydanticModelCodeGenerator


class Boom(PydanticModelCodeGenerator):
    calls = 0

    def generate(self, *a, **kw):
        Boom.calls += 1
        if Boom.calls >= 2:
            raise RuntimeError("generator fails on the second class")
        return super().generate(*a, **kw)


class BoomInit(PydanticModelCodeGenerator):
    def __init__(self, *a, **kw):
        raise RuntimeError("generator cannot be constructed")
'''

# kind -> (input format, bad file content or None, per-file lookup or None, extra argv, is_file_fault)
FILE_FAULTS = {
    "missing_file": ("json", None, None),
    "missing_file_yaml": ("yaml", None, None),
    "missing_file_ini": ("ini", None, None),
    "directory_instead_of_file_ini": ("ini", "<dir>", None),
    "directory_instead_of_file": ("json", "<dir>", None),
    "malformed_json": ("json", '{"id": 1, "name": ', None),
    "empty_file": ("json", "", None),
    "malformed_yaml": ("yaml", "id: 1\nname: [unclosed\n  x: : :\n", None),
    "malformed_ini": ("ini", "this line is not ini\n[section\nk = v\n", None),
    "lookup_missing_key": ("json", json.dumps({"d": {"items": [{"id": 9}]}}), "d.nope"),
    "lookup_to_scalar": ("json", json.dumps({"d": {"items": 5}}), "d.items"),
    "lookup_through_scalar": ("json", json.dumps({"d": 5}), "d.items"),
    "top_level_scalar": ("json", "5", None),
    "top_level_string": ("json", '"text"', None),
    "top_level_null": ("json", "null", None),
    # a string value that cannot be encoded (a lone surrogate written as a JSON escape): whatever stage rejects it, an existing
    # output file must not have been touched by then
    "lone_surrogate_value": ("json", '[{"id": 7, "name": "\\ud83d"}]', None),
    "top_level_empty_string": ("json", '""', None),
    "lookup_to_empty_string": ("json", json.dumps({"meta": {"note": ""}, "d": {"items": [{"id": 9}]}}), "meta.note"),
    "lookup_to_empty_string_yaml": ("yaml", "meta:\n  note: \"\"\n", "meta.note"),
    "lookup_to_empty_ini_option": ("ini", "[server]\nmotd =\nport = 1\n", "server.motd"),
    "lookup_to_false": ("json", json.dumps({"d": {"items": False}}), "d.items"),
    "lookup_to_zero": ("json", json.dumps({"d": {"items": 0}}), "d.items"),
    "list_of_scalars": ("json", "[1, 2]", None),
    "list_with_one_scalar": ("json", '[{"id": 7, "name": "z"}, 3]', None),
    "list_with_null": ("json", '[{"id": 7, "name": "z"}, null]', None),
    # a YAML stream whose root is null: nothing an object or list could be selected from
    "yaml_empty_file": ("yaml", "", None),
    "yaml_only_separator": ("yaml", "---\n", None),
    "yaml_comment_only": ("yaml", "# nothing here\n", None),
    "yaml_explicit_null": ("yaml", "~\n", None),
    "yaml_null_under_lookup": ("yaml", "d:\n  items: ~\n", "d.items"),
    "yaml_duplicate_key": ("yaml", "id: 1\nid: 2\nname: a\n", None),
    "ini_duplicate_section": ("ini", "[s1]\nk = v\n[s1]\nk = w\n", None),
    "json_trailing_garbage": ("json", '{"id": 1, "name": "a"} trailing', None),
    "json_two_documents": ("json", '{"id": 1, "name": "a"}\n{"id": 2, "name": "b"}', None),
    "non_string_keys_yaml": ("yaml", "1: a\n2: b\n", None),
    "nested_non_string_keys_yaml": ("yaml", "id: 1\nsub:\n  1: a\n", None),
}
ARG_FAULTS = {
    "bad_merge_policy": ["--merge", "bogus"],
    "bad_merge_policy_arg": ["--merge", "percent_abc"],
    "bad_merge_policy_with_arg": ["--merge", "bogus_5"],
    "merge_policy_empty_argument": ["--merge", "percent_"],
    "merge_policy_empty_argument_number": ["--merge", "number_"],
    "merge_policy_argument_for_exact": ["--merge", "exact_5"],
    "merge_policy_two_arguments": ["--merge", "percent_70_80"],
    "merge_policy_two_arguments_number": ["--merge", "number_1_0"],
    "merge_policy_bad_after_good": ["--merge", "exact", "number_"],
    "merge_policy_float_for_number": ["--merge", "number_1.5"],
    "custom_without_generator": ["-f", "custom"],
    "generator_without_custom": ["--code-generator", "verif_gen.Boom"],
    "unknown_framework": ["-f", "nope"],
    "unknown_structure": ["-s", "tree"],
    "unknown_input_format": ["-i", "xml"],
    "four_argument_model": None,
    "four_argument_model_all_valid": None,
    "five_argument_model_all_valid": None,
    "generator_raises_midway": ["-f", "custom", "--code-generator", "verif_gen.Boom"],
    "generator_init_raises": ["-f", "custom", "--code-generator", "verif_gen.BoomInit"],
    "generator_module_missing": ["-f", "custom", "--code-generator", "no_such_module.Gen"],
    "generator_attr_missing": ["-f", "custom", "--code-generator", "verif_gen.Nope"],
    "unknown_generator_kwarg": ["-f", "pydantic", "--code-generator-kwargs", "no_such_kwarg=1"],
    "bad_max_literals": ["--max-strings-literals", "many"],
    "bad_dict_keys_regex": ["--dkr", "(unclosed"],
}
POSITIONS = ["only", "first", "middle", "last"]
OUTPUTS = ["stdout", "new_file", "existing_file"]


def _cases(tier):
    for kind in FILE_FAULTS:
        for pos in POSITIONS:
            for out in OUTPUTS:
                yield {"k": "matrix", "kind": kind, "pos": pos, "out": out}
    for kind in ARG_FAULTS:
        for out in OUTPUTS:
            yield {"k": "matrix", "kind": kind, "pos": "args", "out": out}
    for fmt in ("json", "yaml"):
        for out in OUTPUTS:
            yield {"k": "success", "fmt": fmt, "out": out}


def _has_code(text):
    return any(l.startswith("class ") or l.startswith("from ") or l.startswith("import ") or l.startswith("@") for l in text.split("\n"))


def _dump(fmt, data):
    if fmt == "ini":
        return "[s1]\nport = 80\nname = x\n"
    return json.dumps(data, indent=1)


def _prepare(d, fmt, out):
    ext = fmt
    names = []
    for i, g in enumerate(GOOD):
        fn = f"good{i}.{ext}"
        with open(os.path.join(d, fn), "w") as f:
            f.write(_dump(fmt, g))
        names.append(fn)
    with open(os.path.join(d, "verif_gen.py"), "w") as f:
        f.write(GEN_MODULE)
    target = os.path.join(d, "out.py")
    if out == "existing_file":
        with open(target, "wb") as f:
            f.write(SENTINEL)
    return names, target


def _judge_failure(status, stdout, target, out, V):
    if status == 0:
        V("failing_run_exits_zero", f"stdout starts {stdout[:120]!r}")
    if _has_code(stdout):
        V("model_code_printed_by_failing_run", stdout[:160])
    if out == "existing_file":
        try:
            data = open(target, "rb").read()
        except OSError:
            data = None
        if data != SENTINEL:
            V("existing_output_file_changed", f"now {data[:80] if data is not None else 'deleted'!r}")
    elif out == "new_file" and os.path.exists(target):
        data = open(target, "r", errors="replace").read()
        ok = clidrv.split_header(data)[0] is not None and data.rstrip().count("class ") >= 1 and data.endswith("\n")
        try:
            compile(data, "out.py", "exec")
        except SyntaxError:
            ok = False
        if not ok or status != 0:
            V("partial_or_unexpected_output_file", f"status {status}, file has {len(data)} chars: {data[:100]!r}")


def execute(case):
    if case["k"] == "inject":
        return _inject(case)
    d = tempfile.mkdtemp(prefix="c17_")
    viol = []
    try:
        if case["k"] == "success":
            fmt = case["fmt"]
            names, target = _prepare(d, fmt, case["out"])
            argv = ["-i", fmt, "-f", "pydantic"]
            for n in names:
                argv += ["-m", "Root", n]
            st0, so0, se0 = clidrv.run_subprocess(argv, d)
            shape = ["success", "fmt:" + fmt, "out:" + case["out"]]

            def V(clause, detail):
                viol.append(core.viol(clause, "success", shape, detail))
            if st0 != 0 or not _has_code(so0):
                V("fault_free_run_fails", f"status {st0}: {se0[-200:]}")
            if case["out"] != "stdout":
                st, so, se = clidrv.run_subprocess(argv + ["-o", "out.py"], d)
                if st != 0:
                    V("fault_free_run_fails", f"-o: status {st}: {se[-200:]}")
                else:
                    data = open(target, encoding="utf8").read()
                    body_file = clidrv.split_header(data)[1]
                    body_out = clidrv.split_header(so0)[1]
                    if body_file.rstrip("\n") != body_out.rstrip("\n"):      # trailing newlines of the printed stream are not part of the text
                        V("file_differs_from_printed_text", f"file {body_file[-120:]!r} / stdout {body_out[-120:]!r}")
                    if clidrv.split_header(data)[0] is None:
                        V("file_lacks_header", data[:80])
                    if _has_code(so):
                        V("code_printed_although_o_given", so[:100])
                    if case["out"] == "existing_file":
                        # successive runs over the file the tool itself wrote: shorter input first (its code is a prefix of the next
                        # run's), then longer, then shorter again - every successful run leaves exactly its own complete text
                        plain = []
                        for i, content in enumerate(({"x": 1, "y": 2.5}, {"p": 3, "q": 4.5}, {"u": 5, "v": True})):
                            nm = f"plain{i}.json"
                            with open(os.path.join(d, nm), "w") as f:
                                json.dump(content, f)
                            plain.append(nm)
                        fmt = "json"
                        for sub in (plain[:1], plain, plain[:1], plain[:2], names[:1], names):
                            a2 = ["-i", fmt, "-f", "pydantic"]
                            for i, n in enumerate(sub):
                                a2 += ["-m", f"Model{i}", n]
                            s1, o1, e1 = clidrv.run_subprocess(a2, d)
                            s2, o2, e2 = clidrv.run_subprocess(a2 + ["-o", "out.py"], d)
                            if s1 != 0 or s2 != 0:
                                V("fault_free_run_fails", f"rerun {sub}: status {s1}/{s2}: {(e1 + e2)[-200:]}")
                                continue
                            now = clidrv.split_header(open(target, encoding="utf8").read())[1]
                            if now.rstrip("\n") != clidrv.split_header(o1)[1].rstrip("\n"):
                                V("file_differs_from_printed_text", f"after re-running over the tool's own earlier output ({len(sub)} inputs): file "
                                  f"{now[-100:]!r} / stdout {clidrv.split_header(o1)[1][-100:]!r}")
            return {"obs": ["success:" + case["out"]], "viol": viol, "outcome": "success", "show": " ".join(argv), "nontrivial": "ok:" + core.digest(case)}
        kind, pos, out = case["kind"], case["pos"], case["out"]
        shape = ["kind:" + kind, "pos:" + pos, "out:" + out]

        def V(clause, detail):
            viol.append(core.viol(clause, kind, shape, detail + f" || argv={argv}"))
        if kind in FILE_FAULTS:
            fmt, bad, lookup = FILE_FAULTS[kind]
            names, target = _prepare(d, fmt, out)
            badname = f"bad.{fmt}"
            if bad == "<dir>":
                os.makedirs(os.path.join(d, badname))
            elif bad is not None:
                with open(os.path.join(d, badname), "w") as f:
                    f.write(bad)
            badarg = ["-m", "Root", badname] if lookup is None else ["-m", "Root", lookup, badname]
            good = [["-m", "Root", n] for n in names[:2]]
            order = {"only": [badarg], "first": [badarg] + good, "middle": [good[0], badarg, good[1]], "last": good + [badarg]}[pos]
            argv = ["-i", fmt, "-f", "pydantic"] + [x for grp in order for x in grp]
        else:
            names, target = _prepare(d, "json", out)
            if kind == "four_argument_model":
                argv = ["-m", "Root", "-", names[0], "extra"]
            elif kind == "four_argument_model_all_valid":
                argv = ["-m", "Root", "-", names[0], names[1]]       # e.g. an unquoted pattern expanded by the shell
            elif kind == "five_argument_model_all_valid":
                argv = ["-m", "Root", "-", names[0], names[1], names[0]]
            else:
                argv = ["-m", "Root", names[0], "-m", "Root", names[1]] + [a for a in ARG_FAULTS[kind]
                                                                            if not (a == "-f" and False)]
                if kind not in ("custom_without_generator", "unknown_framework", "generator_raises_midway", "generator_init_raises",
                                "generator_module_missing", "generator_attr_missing", "unknown_generator_kwarg"):
                    pass
        if out != "stdout":
            argv = argv + ["-o", "out.py"]
        status, so, se = clidrv.run_subprocess(argv, d)
        _judge_failure(status, so, target, out, V)
        return {"obs": [f"{kind}:{'fail' if status else 'exit0'}"], "viol": viol, "outcome": f"status_{min(status, 3)}",
                "show": f"{kind}/{pos}/{out}: status {status} {se.strip().splitlines()[-1][:100] if se.strip() else ''}",
                "nontrivial": f"{kind}:{pos}"}
    finally:
        shutil.rmtree(d, ignore_errors=True)


# ------------------------------------------------------------------------------------------------
# injection sweep
# ------------------------------------------------------------------------------------------------

class InjectedFault(RuntimeError):
    pass


INJECT_INPUTS = {
    "two_files_pydantic": (["-f", "pydantic"], [0, 1]),
    "three_files_attrs_nested_conv": (["-f", "attrs", "-s", "nested", "--strings-converters", "--datetime"], [0, 1, 2]),
    "one_file_dataclasses_merge": (["-f", "dataclasses", "--merge", "exact", "--max-strings-literals", "0", "--preamble", "# p"], [0]),
}


def _traced_main(argv, d, k):
    """run main() in a forked child; raise InjectedFault at the k-th call event inside json_to_models (k=0: count only).
    returns (status, stdout, n_call_events, absorbed?)"""
    import io
    r, w = os.pipe()
    pid = os.fork()
    if pid == 0:
        res = [97, "", 0, False]
        try:
            os.close(r)
            os.chdir(d)
            so = io.StringIO()
            old = sys.stdout, sys.stderr, sys.argv
            sys.stdout, sys.stderr, sys.argv = so, io.StringIO(), ["json2models"] + list(argv)
            count = [0]
            fired = [False]
            marker = os.sep + "json_to_models" + os.sep

            def tracer(frame, event, arg):
                if event == "call" and marker in frame.f_code.co_filename:
                    count[0] += 1
                    if count[0] == k:
                        fired[0] = True
                        raise InjectedFault(f"injected at call #{k}: {frame.f_code.co_name}")
                return None
            status = 0
            from json_to_models.cli import main
            try:
                sys.settrace(tracer)
                try:
                    main()
                finally:
                    sys.settrace(None)
            except SystemExit as e:
                status = e.code if isinstance(e.code, int) else (0 if e.code is None else 1)
            except BaseException:
                status = 1
            finally:
                sys.stdout, sys.stderr, sys.argv = old
            res = [status, so.getvalue(), count[0], fired[0]]
        finally:
            try:
                with os.fdopen(w, "w") as f:
                    json.dump(res, f)
            finally:
                os._exit(0)
    os.close(w)
    with os.fdopen(r) as f:
        data = f.read()
    os.waitpid(pid, 0)
    return json.loads(data)


def _inject(case):
    """one (input, output mode, k) injection"""
    d = tempfile.mkdtemp(prefix="c17i_")
    viol = []
    try:
        opts, files = INJECT_INPUTS[case["input"]]
        names, target = _prepare(d, "json", case["out"])
        argv = list(opts)
        for i in files:
            argv += ["-m", "Root", names[i]]
        if case["out"] != "stdout":
            argv += ["-o", "out.py"]
        status, so, n, fired = _traced_main(argv, d, case["kth"])
        shape = ["inject", "input:" + case["input"], "out:" + case["out"]]

        def V(clause, detail):
            viol.append(core.viol(clause, "injected_fault", shape, detail + f" (k={case['kth']} of {case.get('n')})"))
        if not fired:
            return {"obs": ["not_fired"], "viol": [core.viol("injection_point_not_reached", "harness", shape, f"k={case['kth']} n={n}")],
                    "outcome": "not_fired", "show": ""}
        if status != 0:
            _judge_failure(status, so, target, case["out"], V)
            outcome = "propagated"
        else:
            # the code absorbed the injected exception: the run must then satisfy the success clause
            outcome = "absorbed"
            ref_status, ref_out, _, _ = _traced_main(argv, d, 0) if case["out"] == "stdout" else (0, None, 0, False)
            if case["out"] == "stdout" and clidrv.split_header(so)[1] != clidrv.split_header(ref_out)[1]:
                V("absorbed_fault_changes_output", so[-160:])
        return {"obs": [outcome], "viol": viol, "outcome": outcome, "show": f"{case['input']} k={case['kth']} status={status}",
                "nontrivial": f"{case['input']}:{case['out']}:{case['kth']}"}
    finally:
        shutil.rmtree(d, ignore_errors=True)


def run(tier, seed):
    r = core.Run(PROP, tier, seed, level="fault_enumeration")
    r.rule = ("(1) 25 file fault kinds x position {only, first, middle, last} x output {stdout, -o new, -o existing sentinel} + 16 argument / "
              "generator fault kinds x output, as real subprocesses; fault-free runs json/yaml x output; (2) InjectedFault raised at EVERY call "
              "event k=1..N inside json_to_models for 3 inputs x {stdout, -o existing}; non-trivial = distinct (kind, position) / injection points")
    r.bounds = {"tier": tier}
    r.assumptions = ["faults inside the final write itself (disk full, signals) are out of scope: the statement does not claim atomic replacement",
                     "an injected fault the code absorbs (exit 0) must satisfy the success clause"]
    for case, res in core.pmap(execute, list(_cases(tier)), chunksize=2):
        r.add(case, res)
    # injection sweep
    inj = []
    n_points = {}
    inputs = list(INJECT_INPUTS) if tier != "quick" else list(INJECT_INPUTS)[:2]
    for name in inputs:
        for out in ("stdout", "existing_file"):
            d = tempfile.mkdtemp(prefix="c17n_")
            try:
                opts, files = INJECT_INPUTS[name]
                names, target = _prepare(d, "json", out)
                argv = list(opts)
                for i in files:
                    argv += ["-m", "Root", names[i]]
                if out != "stdout":
                    argv += ["-o", "out.py"]
                status, so, n, _ = _traced_main(argv, d, 0)
                if status != 0:
                    raise core.HarnessError(f"fault-free traced run of {name} failed")
            finally:
                shutil.rmtree(d, ignore_errors=True)
            n_points[f"{name}:{out}"] = n
            for k in range(1, n + 1):
                inj.append({"k": "inject", "input": name, "out": out, "kth": k, "n": n})
    for case, res in core.pmap(execute, inj, chunksize=16, budget_s=240 if tier == "quick" else 1500):
        r.add(case, res)
    if core.pmap.capped:
        r.caps.append("wall budget hit in the injection sweep")
    r.extra["injection_points"] = n_points
    return r.finish(replay_fn=execute)
