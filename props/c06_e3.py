"""E3 driver for C06: explores set-iteration orders on the instrumented library (mc/vset.py).
Runs in subprocesses started with VERIF_VSET=1 so that the import hook precedes the library import."""
import itertools
import json
import os
import subprocess
import sys

from mc import core

E3_CONFIGS = [("pydantic", "flat", "default"), ("pydantic", "nested", "default"), ("dataclasses", "flat", "exact"), ("attrs", "flat", "default"),
              ("base", "nested", "percent_50")]


def _perms(n):
    ident = tuple(range(n))
    if n <= 4:
        return [p for p in itertools.permutations(range(n)) if p != ident], False
    out = []
    for i, j in itertools.combinations(range(n), 2):
        p = list(ident)
        p[i], p[j] = p[j], p[i]
        out.append(tuple(p))
    out.append(tuple(reversed(ident)))
    return out, True


def worker(tier, keys, pairs):
    """runs inside the instrumented process"""
    from mc import pipeline, vset
    from props import c06
    assert vset.REWRITTEN, "harness error: library not loaded through the set-order hook"
    inputs = {k: (s, d) for k, s, d in c06.inputs(tier)}
    out = []
    for key in keys:
        samples, dkr = inputs[key]
        for fw, layout, merge in E3_CONFIGS:
            def run(dev):
                vset.CTRL.reset(dev)
                try:
                    b = c06.build_input(samples, dkr, merge)
                    text = pipeline.render(b.reg, fw, layout)
                except Exception as e:
                    text = f"exc:{type(e).__name__}:{core.exc_site(e)}"
                return text, list(vset.CTRL.log), list(vset.CTRL.applied)
            base, log, _ = run({})
            rec = {"input": key, "fw": fw, "layout": layout, "merge": merge, "baseline": core.digest(base), "baseline_text": base,
                   "sites": len(log), "executions": 1, "outputs": {core.digest(base): 1}, "capped_sites": 0, "divergence": None}
            devs = []
            for name, n in log:
                if n < 2:
                    continue
                ps, capped = _perms(n)
                rec["capped_sites"] += capped
                for p in ps:
                    devs.append({name: p})
            if pairs and len(log) <= 14:
                singles = list(devs)
                for a, b2 in itertools.combinations(singles, 2):
                    if list(a)[0] != list(b2)[0]:
                        d = dict(a)
                        d.update(b2)
                        devs.append(d)
                devs = devs[:6000]
            for dev in devs:
                text, _, applied = run(dev)
                rec["executions"] += 1
                dg = core.digest(text)
                rec["outputs"][dg] = rec["outputs"].get(dg, 0) + 1
                if text != base and rec["divergence"] is None:
                    a, b2 = base.splitlines(), text.splitlines()
                    diff = next((f"line {i + 1}: {x!r} / {y!r}" for i, (x, y) in enumerate(itertools.zip_longest(a, b2, fillvalue="<eof>")) if x != y), "?")
                    rec["divergence"] = {"deviation": {k: list(v) for k, v in dev.items()}, "applied": applied, "diff": diff}
            out.append(rec)
    return out


def explore(tier):
    from props import c06
    from mc import pipeline
    keys = [k for k, s, d in c06.inputs(tier) if not k.startswith("G")]
    gkeys = [k for k, s, d in c06.inputs(tier) if k.startswith("G")]
    keys += gkeys[::7] if tier == "quick" else gkeys[::2]
    nproc = core.NPROC
    slices = [keys[i::nproc] for i in range(nproc)]
    procs = []
    for sl in slices:
        if not sl:
            continue
        code = ("import sys, json; sys.path.insert(0, %r); from props import c06_e3; json.dump(c06_e3.worker(%r, %r, %r), sys.stdout)"
                % (core.VERIF, tier, sl, tier != "quick"))
        env = dict(os.environ, VERIF_VSET="1", PYTHONHASHSEED="0")
        procs.append(subprocess.Popen([sys.executable, "-c", code], stdout=subprocess.PIPE, stderr=subprocess.PIPE, text=True, env=env, cwd=core.VERIF))
    recs = []
    for p in procs:
        so, se = p.communicate(timeout=3000)
        if p.returncode != 0:
            raise core.HarnessError("E3 worker failed: " + se[-800:])
        recs += json.loads(so)
    # binding: the instrumented build with no deviation must produce exactly what the plain build produces
    inputs = {k: (s, d) for k, s, d in c06.inputs(tier)}
    unbound = []
    divergences = []
    for rec in recs:
        samples, dkr = inputs[rec["input"]]
        try:
            b = c06.build_input(samples, dkr, rec["merge"])
            plain = pipeline.render(b.reg, rec["fw"], rec["layout"])
        except Exception as e:
            plain = f"exc:{type(e).__name__}:{core.exc_site(e)}"
        if plain != rec["baseline_text"]:
            unbound.append(rec["input"] + "|" + rec["fw"] + "|" + rec["layout"])
    states = set()
    execs = 0
    for rec in recs:
        execs += rec["executions"]
        for dg in rec["outputs"]:
            states.add(f"{rec['input']}|{rec['fw']}|{rec['layout']}:{dg}")
        if rec["divergence"]:
            divergences.append({"input": rec["input"], "fw": rec["fw"], "layout": rec["layout"], "merge": rec["merge"], **rec["divergence"],
                                "distinct_outputs": len(rec["outputs"])})
    summary = {"inputs": len(keys), "configs": len(E3_CONFIGS), "executions": execs, "choice_points_total": sum(r["sites"] for r in recs),
               "capped_sites(>4 elements: transpositions+reversal only)": sum(r["capped_sites"] for r in recs),
               "candidate_divergences": len(divergences),
               "zero_deviation_bound_to_plain_build": {"compared": len(recs), "mismatches": unbound[:10]},
               "deviation_bound": 1 if tier == "quick" else 2}
    # A mismatch means: the real (hash-order) run and the insertion-order run already differ, i.e. some set order reaches the output.
    # That is itself a candidate divergence (decided by E4 like any other), not a harness error.
    for rec in recs:
        tag = rec["input"] + "|" + rec["fw"] + "|" + rec["layout"]
        if tag in unbound and not rec["divergence"]:
            divergences.append({"input": rec["input"], "fw": rec["fw"], "layout": rec["layout"], "merge": rec["merge"],
                                "deviation": "hash order of the plain build vs insertion order", "applied": [], "diff": "baseline differs",
                                "distinct_outputs": 2})
    summary["candidate_divergences"] = len(divergences)
    return {"summary": summary, "executions": execs, "states": sorted(states), "divergences": divergences}
