"""C18 - generated attrs/dataclass models construct from their samples and convert (DESIGN.md 4, C18).

E1: every annotation path over {O, L, D} of depth <=3 (no O.O) ending in each pseudo-type leaf or a
non-string leaf; for each path the enumerator builds the sample list inducing it plus the variants
(null at every O, empty container at every L/D, absent field) and sibling plain fields;
x {attrs, dataclasses} x converters on/off x meta.  Oracle on instances of the executed classes."""
import itertools
import typing

from mc import core, ir, pipeline, program

PROP = "C18"
LEAVES = {
    "IntString": "1", "FloatString": "1.5", "BooleanString": "true",
    "IsoDateString": "2020-02-03", "IsoTimeString": "12:30", "IsoDatetimeString": "2020-02-03T12:30:45",
    "int": 7,
}
LEAVES2 = {"IntString": "22", "FloatString": "2.5", "BooleanString": "False", "IsoDateString": "2021-03-04",
           "IsoTimeString": "01:02:03+05:30", "IsoDatetimeString": "2021-03-04T05:06:07-05:00", "int": 8}


def _reference(h, v):
    """the value the string denotes, computed WITHOUT the library (stdlib parsers on canonical spellings); None = no reference"""
    import datetime
    n = getattr(h, "__name__", "")
    try:
        if n == "IntString":
            return int(v)
        if n == "FloatString":
            return float(v)
        if n == "BooleanString":
            return {"true": True, "false": False}[v.lower()]
        if n == "IsoDateString":
            return datetime.date.fromisoformat(v)
        if n == "IsoTimeString":
            return datetime.time.fromisoformat(v)
        if n == "IsoDatetimeString":
            return datetime.datetime.fromisoformat(v)
    except Exception:
        return None
    return None


def _eqv(a, b):
    """== with NaN equal to NaN"""
    if isinstance(a, float) and isinstance(b, float) and a != a and b != b:
        return True
    return a == b


def _same_instant(got, ref):
    import datetime
    if isinstance(ref, float):
        return _eqv(float(got), ref)
    if isinstance(ref, (datetime.datetime, datetime.time)):
        # same wall clock AND same offset (== on aware values only compares the instant; on naive ones the fields)
        return got == ref and got.utcoffset() == ref.utcoffset() and got.replace(tzinfo=None) == ref.replace(tzinfo=None)
    return got == ref


def paths(max_depth):
    out = [()]
    for d in range(1, max_depth + 1):
        for p in itertools.product("OLD", repeat=d):
            if any(p[i] == "O" and p[i + 1] == "O" for i in range(len(p) - 1)):
                continue
            out.append(p)
    return out


def _cases(tier):
    leaves = list(LEAVES) if tier != "quick" else ["IntString", "BooleanString", "IsoDateString", "IsoDatetimeString", "int"]
    for p in paths(3 if tier == "quick" else 4):
        for leaf in leaves:
            for variant in ("plain", "empty_containers", "absent", "two_values"):
                if variant == "absent" and (not p or p[0] != "O"):
                    continue
                if variant == "empty_containers" and not any(t in "LD" for t in p):
                    continue
                yield {"path": "".join(p), "leaf": leaf, "variant": variant}
                if variant in ("plain", "absent"):
                    yield {"path": "".join(p), "leaf": leaf, "variant": variant, "key": "orderIds"}
    # many convertible fields in one model (the decorator's path list gets long)
    for n in (2, 3, 4, 5, 6, 7, 9, 10, 11, 15):
        for p in ("", "O", "L", "D"):
            yield {"path": p, "leaf": "IntString", "variant": "plain", "many": n}
    # every numeric spelling of the C09 grammar that the int / float parsers accept, at the positions where attrs (converters off)
    # hands the string to the class constructor instead of the parser
    from props import c09
    for cls, st in c09.grammar(tier):
        if not cls.startswith("num") or len(st) > 40:
            continue
        row = c09.accept_row(st)
        leaf = "IntString" if row.get("IntString") == "acc" else ("FloatString" if row.get("FloatString") == "acc" else None)
        if leaf:
            for p in ("", "O", "L"):
                yield {"path": p, "leaf": leaf, "variant": "plain", "w": st}


KEY = ["a"]
OVERRIDE = [None]     # a grammar string replacing the leaf's standard spelling


def _value(path, leaf, second=False):
    """JSON value inducing `path` below the top-level Optional (which is realised by a second sample)"""
    w = (LEAVES2 if second else LEAVES)[leaf]
    if OVERRIDE[0] is not None and not second:
        w = OVERRIDE[0]
    if not path:
        return w
    t, rest = path[0], path[1:]
    if t == "O":
        return _value(rest, leaf, second)
    inner = _value(rest, leaf, second)
    opt = bool(rest) and rest[0] == "O"
    if t == "L":
        return [inner, None] if opt else [inner]
    if t == "D":
        return {"k1": inner, "k2": None} if opt else {"k1": inner}
    raise ValueError(t)


def _empty_variants(path, leaf):
    """values in which one container of the path is empty"""
    out = []
    toks = [t for t in path]
    for i, t in enumerate(toks):
        if t not in "LD":
            continue

        def build(j):
            if j == len(toks):
                return LEAVES[leaf]
            tt = toks[j]
            if tt == "O":
                return build(j + 1)
            if j == i:
                return [] if tt == "L" else {}
            inner = build(j + 1)
            return [inner] if tt == "L" else {"k1": inner}
        out.append(build(0))
    return out


def _samples(case):
    path, leaf = case["path"], case["leaf"]
    # siblings: a plain pseudo-typed field before and after the pathed one, an int and a plain string
    KEY[0] = case.get("key", "a")
    OVERRIDE[0] = case.get("w")
    base = {"p0": "9", "a": _value(path, leaf), "b": 1, "c": "text", "d": "5.5"}
    for i in range(case.get("many", 0)):
        base[f"e{i:02d}"] = ["3", "2.5", ["4"], "8"][i % 4]
    out = [base]
    if path.startswith("O"):
        out.append({"p0": "8", "b": 2, "c": "text2", "d": "4.5"} if case["variant"] == "absent"
                   else {"p0": "8", "a": None, "b": 2, "c": "text2", "d": "4.5"})
    if case["variant"] == "empty_containers":
        for v in _empty_variants(path, leaf):
            out.append({"p0": "7", "a": v, "b": 3, "c": "t3", "d": "3.5"})
    if case["variant"] == "two_values":
        out.append({"p0": "6", "a": _value(path, leaf, second=True), "b": 4, "c": "t4", "d": "2.5"})
    if KEY[0] != "a":   # the pathed field lives under a key that needs renaming (camelCase -> snake_case attribute)
        out = [{(KEY[0] if k == "a" else k): v for k, v in o.items()} for o in out]
    return out


def _expect(h, v):
    """expected converted value for annotation h and original JSON value v (converters on)"""
    if v is None:
        return None
    k = program.hint_kind(h)
    if k == "pseudo":
        return h.to_internal_value(v)
    if k == "union":
        args = [a for a in typing.get_args(h) if a is not type(None)]
        if len(args) == 1:
            return _expect(args[0], v)
        return v
    if k == "list" and isinstance(v, list):
        (a,) = typing.get_args(h)
        return [_expect(a, e) for e in v]
    if k == "dict" and isinstance(v, dict):
        return {kk: _expect(typing.get_args(h)[1], e) for kk, e in v.items()}
    return v


def _same(got, exp, h, orig=None):
    """got equals exp, and pseudo-typed positions hold instances of the pseudo-type"""
    if exp is None:
        return got is None
    k = program.hint_kind(h)
    if k == "pseudo":
        return isinstance(got, h) and _eqv(got, exp) and (orig is None or _reference(h, orig) is None or _same_instant(got, _reference(h, orig)))
    if k == "union":
        args = [a for a in typing.get_args(h) if a is not type(None)]
        if len(args) == 1:
            return _same(got, exp, args[0], orig)
    if k == "list" and isinstance(exp, list):
        (a,) = typing.get_args(h)
        return isinstance(got, list) and len(got) == len(exp) and all(_same(g, e, a, o) for g, e, o in zip(got, exp, orig if isinstance(orig, list) else [None] * len(exp)))
    if k == "dict" and isinstance(exp, dict):
        a = typing.get_args(h)[1]
        return isinstance(got, dict) and got.keys() == exp.keys() and all(_same(got[x], exp[x], a, orig.get(x) if isinstance(orig, dict) else None) for x in exp)
    return type(got) is type(exp) and got == exp


def execute(case):
    samples = _samples(case)
    viol, obs, outcomes = [], [], []
    execs = 0
    types = pipeline.ALL_TYPES if case["leaf"].startswith("Iso") else pipeline.DEFAULT_TYPES
    seen = set()
    import copy
    pristine = copy.deepcopy(samples)
    for fw in ("attrs", "dataclasses"):
        for conv in (True, False):
            for meta in (False, True, "slots"):
                shape = ["p:" + (case["path"][:i] or "-") for i in range(0 if not case["path"] else 1, len(case["path"]) + 1)] \
                    + ["leaf:" + case["leaf"]] + (["many_fields"] if case.get("many", 0) > 3 else [])
                site = f"{fw}:{'conv' if conv else 'noconv'}"
                kw = {"post_init_converters": conv}
                if meta == "slots":
                    # decorator kwargs are an option of both generators: slotted classes have no __dict__
                    kw["attrs_kwargs" if fw == "attrs" else "dataclass_kwargs"] = {"slots": True}
                elif meta:
                    kw["meta"] = True

                def V(clause, detail):
                    if (clause, site) in seen:
                        return
                    seen.add((clause, site))
                    viol.append(core.viol(clause, site, shape, detail))
                try:
                    b = pipeline.build(samples, types=types, dkr=[r"k\d"])
                    text = pipeline.render(b.reg, fw, "flat", **kw)
                    execs += 1
                except Exception as e:
                    V("generation_raises", f"{core.exc_site(e)}: {e}")
                    continue
                try:
                    with program.Program(text, fw) as prog:
                        Root = prog.mod.__dict__["Root"]
                        hints = prog.hints(("Root",))
                        expected_annotation = "".join({"O": "Optional[", "L": "List[", "D": "Dict[str, "}[t] for t in case["path"])
                        key = case.get("key", "a")
                        attr = {k: k for k in hints}
                        if key not in hints:
                            others = [h for h in hints if h not in ("p0", "b", "c", "d")]
                            if len(others) != 1:
                                V("renamed_field_missing", f"fields {list(hints)} for key {key!r}")
                                continue
                            attr[key] = others[0]
                        for i, s0 in enumerate(samples):
                            s = {attr[k]: v for k, v in s0.items()}     # the very same value objects for every construction
                            try:
                                inst = Root(**s)
                            except Exception as e:
                                V("construction_raises", f"sample#{i} {s!r}: {type(e).__name__}: {e} || {text[-260:]}")
                                samples[i] = copy.deepcopy(pristine[i])
                                continue
                            if s0 != pristine[i] or repr(s0) != repr(pristine[i]):
                                V("construction_mutates_the_sample", f"sample#{i}: {pristine[i]!r} became {s0!r}")
                                samples[i] = copy.deepcopy(pristine[i])
                            s = {attr[k]: v for k, v in pristine[i].items()}

                            for name, orig in s.items():
                                got = getattr(inst, name)
                                h = hints[name]
                                if conv:
                                    exp = _expect(h, orig)
                                    if not _same(got, exp, h, orig):
                                        V("converted_value_wrong" if name == attr.get(key, "a") else "other_field_modified",
                                          f"sample#{i} field {name}: annotation {h!r}, original {orig!r}, holds {got!r} ({type(got).__name__}), "
                                          f"expected {exp!r}")
                                elif fw == "attrs" and (name in ("p0", "d") or (name[:1] == "e" and name[1:].isdigit() and isinstance(orig, str))
                                                        or (name == attr.get(key, "a") and case["path"] in ("", "O")
                                                                                  and case["leaf"] in ("IntString", "FloatString"))):
                                    exp = _expect(h, orig)
                                    if not _same(got, exp, h, orig):
                                        V("attrs_field_converter_wrong", f"sample#{i}: {orig!r} -> {got!r}, expected {exp!r}")
                                elif not (fw == "attrs" and name == attr.get(key, "a") and case["path"] in ("", "O")):  # known-finding leaves
                                    if not (type(got) is type(orig) and got == orig):
                                        V("field_modified_without_converters", f"sample#{i} field {name}: {orig!r} -> {got!r}")
                        obs.append(core.digest(text))
                        outcomes.append("ok")
                except program.LoadError as e:
                    V("module_does_not_load", f"{e} || {text[-300:]}")
    return {"obs": obs, "viol": viol, "execs": execs, "trans": execs, "outcome": outcomes[:1] or ["none"],
            "show": f"{case['path'] or '-'}:{case['leaf']} {case['variant']} samples={samples!r}"[:240],
            "nontrivial": core.digest(case) if case["path"] else None}


def run(tier, seed):
    r = core.Run(PROP, tier, seed)
    r.rule = ("all annotation paths over {O,L,D} of depth <=3 (quick: 34 paths) / <=4 (thorough: 94 paths) without O.O, incl. the empty path x leaves (4 quick / 7 thorough) x variants {plain, "
              "empty container at each level, absent field, second value} x {attrs, dataclasses} x converters on/off x meta on/off; "
              "non-trivial = non-empty paths")
    r.bounds = {"tier": tier, "paths": len(paths(3 if tier == "quick" else 4)), "max_depth": 3 if tier == "quick" else 4}
    r.assumptions = ["converters off under attrs: the per-field converter form is judged for integer and float strings only (statement)",
                     "mappings are induced through dict_keys_regex k\\d"]
    for case, res in core.pmap(execute, _cases(tier), chunksize=4, budget_s=240 if tier == "quick" else 1500):
        r.add(case, res)
    if core.pmap.capped:
        r.caps.append("wall budget hit")
    return r.finish(replay_fn=execute)
