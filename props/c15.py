"""C15 - generation works from any thread and concurrent runs do not interfere (DESIGN.md 4, C15).

(a) every framework x layout pipeline run once in a fresh worker thread of a process whose main
    thread imported the library; output must equal the solo output.
(b) Engine E6 (mc/sched.py): k real threads, each rendering (thorough: also building) its own
    registry, under a cooperative scheduler with scheduling points at every call event (and, bound 1,
    every line event) inside json_to_models; iterative preemption bounding 0, 1, 2: ALL schedules up to
    the bound are executed.  Oracle: every thread finishes without exception with exactly its solo output.
(c) supplementary, non-deciding: the same bodies free-running with a minimal switch interval."""
import copy
import itertools
import os
import sys
import threading

from mc import core, pipeline, sched
import json_to_models.cli  # noqa: F401  imported up front: a thread preempted inside a module import would hold the import lock

PROP = "C15"

INPUTS_FULL = {
    "sim": [{"l": {"u": 1, "v": 2, "w": 3}, "r": {"u": 1, "v": 2, "w": 3, "z": 4}}],
    "dis": [{"l": {"u": 1, "v": 2, "w": 3}, "r": {"x": 1, "y": 2, "z": 3}}],
    "shared": [{"id": 1, "billing": {"street": "s", "geo": {"lat": 1.5, "lon": 2.5}}, "shipping": {"carrier": "c", "eta": 3, "geo": {"lat": 3.5, "lon": 4.5}},
                "kind": "x", "state": "on"}, {"id": 2, "billing": None, "shipping": {"carrier": "d", "eta": 4, "geo": {"lat": 1.0, "lon": 2.0}},
                                              "kind": "y", "state": "off"}],
    "nonascii": [{"имя": "a", "größe": {"élan": 1, "naïve-key": "x"}, "日本": [{"κλειδί": 2}], "kind": "p"}],
    "literal": [{"kind": "a", "st": "x", "sub": {"mode": "on"}}, {"kind": "b", "st": "y", "sub": {"mode": "off"}}],
}
# the quick tier uses the smallest inputs that still have the relevant features (a model shared by two parents under
# one root -> non-empty path injection map; a non-ASCII key; a Literal field) so that ALL two-preemption schedules fit
INPUTS_SMALL = {
    # every body has at least one renamed field and one optional container, so that all of them go through the alias / kwargs code
    "shared": [{"a": {"g": {"x": 1}, "p": 1}, "b": {"g": {"x": 2}, "q": "s"}, "k": "x", "userName": "u"}],
    "nonascii": [{"имя": "a", "б": {"é": 1}}],
    "literal": [{"kind": "a", "tagList": [1]}, {"kind": "b"}],
    # same shape, same model indexes, opposite similarity: shared per-index state flips a merge decision
    "sim": [{"l": {"u": 1, "v": 2, "w": 3}, "r": {"u": 1, "v": 2, "w": 3, "z": 4}}],
    "dis": [{"l": {"u": 1, "v": 2, "w": 3}, "r": {"x": 1, "y": 2, "z": 3}}],
    # pseudo-typed strings whose union needs the registry's resolve(); date-only / time-only strings for first-match detection
    "intfloat": [{"price": "1", "qty": "2"}, {"price": "1.5", "qty": "3"}],
    "intfloat2": [{"n": "2", "r": "2.5", "k": "x"}, {"n": "3", "r": "4", "k": "y"}],
    "dates": [{"day": "2020-01-01", "at": "12:30", "ts": "2020-01-01T10:00:00", "n": "5"}],
    "dates2": [{"born": "1999-12-31", "seen": "2021-05-06T07:08:09", "alarm": "06:45"}],
    # two similar models (they merge) whose same-named field points to different, non-mergeable nested models; two inputs with the
    # same model indexes and different contents
    "poly": [{"e1": {"id": 1, "kind": "a", "ts": 1, "payload": {"x": 1, "y": 2}}, "e2": {"id": 2, "kind": "b", "ts": 2, "payload": {"p": "s", "q": [1]}}}],
    # two models that share 60 % of their keys: merged under percent_50, kept apart under exact / the default
    "sim60": [{"p1": {"fa": 1, "fb": 2, "fc": 3, "fd": 4}, "p2": {"fa": 1, "fb": 2, "fc": 3, "fe": 5}, "n": 1}],
    "sim60b": [{"q1": {"ga": 1, "gb": 2, "gc": 3, "gd": 4}, "q2": {"ga": 1, "gb": 2, "gc": 3, "ge": 5}, "m": "x"}],
    "fresh_a": [{"tags": ["alpha", "beta", "gamma", "delta", "7", "true"], "n": "12"}],
    "fresh_b": [{"tags": ["one", "two", "three", "four", "2.5", "false"], "m": "3"}],
    "shape": [{"uid": 1, "title": "t", "address": {"city": "c", "zip": "z"}}],
    "poly2": [{"o1": {"no": 1, "state": "a", "at": 1, "payload": {"u": 1.5, "v": 2}}, "o2": {"no": 2, "state": "b", "at": 2, "payload": {"r": "s", "s": [1]}}}],
}
INPUTS = INPUTS_SMALL
# thread bodies: (input, framework, layout, generator kwargs)
BODIES = {
    "T1": ("shared", "pydantic", "nested", {}),
    "T2": ("nonascii", "attrs", "flat", {"convert_unicode": False, "meta": True}),
    "T3": ("literal", "pydantic", "flat", {"max_literals": 0}),
    "T4": ("literal", "dataclasses", "nested", {"post_init_converters": True}),
    "T5": ("sim", "dataclasses", "flat", {"meta": True}),
    "T6": ("dis", "attrs", "flat", {"meta": True}),
    # bodies that go through PROCESS-WIDE state, as ordinary users do: the default string registry (MetadataGenerator() without an
    # explicit registry) and the CLI class (which registers the datetime types in the default registry on every run)
    "T7": ("intfloat", "pydantic", "flat", {}, "defreg"),
    "T8": ("intfloat2", "attrs", "flat", {}, "defreg"),
    "T9": ("dates", "pydantic", "flat", {}, "cli"),
    "T10": ("dates2", "dataclasses", "flat", {}, "cli"),
    # CLI objects with different --merge policies (each Cli object must keep its own parsed arguments)
    "T16": ("sim60", "pydantic", "flat", {"argv": ["--merge", "exact"]}, "cli"),
    "T17": ("sim60b", "dataclasses", "flat", {"argv": ["--merge", "percent_50"]}, "cli"),
    # a handful of NEW distinct strings through the process-default registry (after a prefill of several hundred others, see plans)
    "T18": ("fresh_a", "pydantic", "flat", {}, "defreg"),
    "T19": ("fresh_b", "dataclasses", "flat", {}, "defreg"),
    # the same record shape under different model names (equal model indexes, equal field types, different names)
    "T20": ("shape", "pydantic", "flat", {"root": "Customer"}),
    "T21": ("shape", "pydantic", "flat", {"root": "Supplier"}),
    "T12": ("poly", "pydantic", "flat", {}),
    "T13": ("poly2", "dataclasses", "flat", {}),
    # the CLI's YAML loader (a module-level parser object of a third-party package): for these two bodies the frames of that package
    # are scheduling points too
    "T14": ("yaml_a", None, None, {}, "yaml"),
    "T15": ("yaml_b", None, None, {}, "yaml"),
    # library use of the default registry on date-like strings, next to a CLI run that (re-)registers the datetime types in it
    "T11": ("dates", "attrs", "flat", {}, "defreg"),
}
YAML_DOCS = {"yaml_a": "a: 1\nb: [x, 2]\nc: {d: e}\n", "yaml_b": "- p: q\n  r: [1.5]\n- p: z\n"}
_SOLO = {}
_WARM = {}


def _gen_kw(kw):
    """generator kwargs of a body (harness-only entries removed)"""
    return {k: v for k, v in kw.items() if k not in ("root", "argv")}


def _mode(name):
    return BODIES[name][4] if len(BODIES[name]) > 4 else "explicit"


def _build(name):
    inp = BODIES[name][0]
    if _mode(name) == "defreg":
        from json_to_models.generator import MetadataGenerator
        from json_to_models.registry import ModelRegistry
        gen = MetadataGenerator()            # process-wide default string registry
        reg = ModelRegistry()
        reg.process_meta_data(gen.generate(*copy.deepcopy(INPUTS[inp])), model_name="Root")
        reg.merge_models(gen)
        reg.generate_names()
        return reg
    return pipeline.build(copy.deepcopy(INPUTS[inp]), types=pipeline.DEFAULT_TYPES, root_name=BODIES[name][3].get("root", "Root")).reg


def _cli_body(name, workdir):
    import json as _json
    from mc import clidrv
    inp, fw = BODIES[name][0], BODIES[name][1]
    path = os.path.join(workdir, f"{name}.json")
    with open(path, "w") as f:
        _json.dump(INPUTS[inp], f)

    def run():
        from json_to_models.cli import Cli
        cli = Cli()
        cli.parse_args(["-m", "Root", path, "-f", fw] + list(BODIES[name][3].get("argv", ["--datetime"])))
        return clidrv.split_header(cli.run())[1]
    return run


def _yaml_body(name, workdir):
    import json as _json
    from pathlib import Path
    path = Path(workdir) / f"{name}.yaml"
    path.write_text(YAML_DOCS[BODIES[name][0]])

    def run():
        from json_to_models.cli import FileLoaders
        return _json.dumps(FileLoaders.yaml(path), sort_keys=True)
    return run


def _body(name, reg, whole, workdir=None):
    fw, layout, kw = BODIES[name][1:4]
    if _mode(name) == "cli":
        return _cli_body(name, workdir)
    if _mode(name) == "yaml":
        return _yaml_body(name, workdir)
    if whole or _mode(name) == "defreg":
        return lambda: pipeline.render(_build(name), fw, layout, **_gen_kw(kw))
    return lambda: pipeline.render(reg, fw, layout, **_gen_kw(kw))


def _in_fork(fn):
    """run fn() in a forked child (process-wide state such as the default registry must start pristine and must not
    leak into the worker that explores further schedules); returns its JSON-able result"""
    import json as _json
    r, w = os.pipe()
    pid = os.fork()
    if pid == 0:
        try:
            os.close(r)
            try:
                res = {"ok": fn()}
            except BaseException as e:
                import traceback
                res = {"err": "".join(traceback.format_exception(type(e), e, e.__traceback__))[-1500:]}
            with os.fdopen(w, "w") as f:
                _json.dump(res, f)
        finally:
            os._exit(0)
    os.close(w)
    with os.fdopen(r) as f:
        data = f.read()
    os.waitpid(pid, 0)
    res = _json.loads(data) if data else {"err": "no result from forked child"}
    if "err" in res:
        raise core.HarnessError(res["err"])
    return res["ok"]


def solo(name, warm=()):
    """output of the body run alone; for bodies on process-wide state: alone in a forked child of a pristine process,
    after the same sequential warm-up the scheduled run starts from"""
    key = (name, tuple(warm))
    if key not in _SOLO:
        fw, layout, kw = BODIES[name][1:4]
        if _mode(name) == "explicit" and not warm:
            _SOLO[key] = pipeline.render(_build(name), fw, layout, **_gen_kw(kw))
        else:
            def alone():
                import tempfile, shutil
                d = tempfile.mkdtemp(prefix="c15s_")
                try:
                    for w in warm:
                        _body(w, None, True, d)()
                    return _body(name, None, True, d)()
                finally:
                    shutil.rmtree(d, ignore_errors=True)
            _SOLO[key] = _in_fork(alone)
    return _SOLO[key]


def execute(case):
    if case["k"] == "any_thread":
        return _any_thread(case)
    if case["k"] == "free":
        return _free_running(case)
    names = case["threads"]
    whole = bool(case.get("whole"))
    if any(_mode(n) != "explicit" for n in names) and not case.get("_child"):
        # process-wide state involved: every schedule starts from the state of a process that has only imported the library
        warm = tuple(names) if case.get("warm") else ()
        c2 = dict(case, _child=True, _solo={n: solo(n, warm) for n in names})   # baselines from the pristine worker, not from the child
        return _in_fork(lambda: _strip_exc(execute(c2)))
    if case["gran"] == "opcode" and not _WARM.get("opcode"):
        # CPython 3.12 enables per-instruction events lazily: the first traced frames of a process miss them. One throw-away
        # execution makes the step counts stable (a residual instability would surface as a hard Divergence error, never as a verdict).
        _WARM["opcode"] = True
        for f in range(len(names)):
            sched.Execution([_body(n, _build(n), False) for n in names], [], first=f, granularity="opcode", record_tail=False).run()
    workdir = None
    if any(_mode(n) in ("cli", "yaml") for n in names):
        import tempfile
        workdir = tempfile.mkdtemp(prefix="c15_")
    regs = [None if (whole or _mode(n) != "explicit") else _build(n) for n in names]
    bodies = [_body(n, r, whole, workdir) for n, r in zip(names, regs)]
    if case.get("prefill"):
        # a process that has already classified many distinct strings through the default registry (size-bounded memos are full)
        from json_to_models.generator import MetadataGenerator
        for lo in range(0, case["prefill"], 100):
            MetadataGenerator().generate({"s": [f"p{i:04d}x" for i in range(lo, min(lo + 100, case["prefill"]))]})
    if case.get("warm"):
        # start from a non-initial state: every body has already run once, sequentially, in this (forked) process
        for n in names:
            _body(n, None, True, workdir)()
    marks = (sched.MARK,) + tuple(os.sep + m + os.sep for m in case.get("marks", ()))
    ex = sched.Execution(bodies, case["schedule"], first=case.get("first", 0), granularity=case["gran"],
                         record_tail=bool(case.get("tail", True)), marks=marks)
    diverged = None
    try:
        try:
            ex.run()
        except sched.Divergence as e:
            # All threads have finished but a scheduled preemption could not be honoured: the step count of a thread is not the one the
            # parent execution recorded, i.e. the code took another path under the same schedule prefix (possible only if something other
            # than the schedule influences it, e.g. garbage-collection timing). The outputs of THIS execution are still judged below;
            # the schedule subtree below it is not expanded. A watchdog timeout is a real harness problem and is re-raised.
            if "watchdog" in str(e):
                raise
            diverged = str(e)
    finally:
        if workdir:
            import shutil
            shutil.rmtree(workdir, ignore_errors=True)
    viol = []
    shape = sorted(names) + [f"preemptions:{len(case['schedule'])}"] + (["warm"] if case.get("warm") else []) + (["prefilled"] if case.get("prefill") else [])
    outs = []
    solos = case.get("_solo")
    if solos is None:
        solos = {n: solo(n, tuple(names) if case.get("warm") else ()) for n in names}
    solo_of = solos.__getitem__
    for i, n in enumerate(names):
        if ex.errors[i] is not None:
            e = ex.errors[i]
            viol.append(core.viol("thread_raises_under_schedule", f"{n}:{core.exc_site(e)}", shape,
                                  f"{type(e).__name__}: {e} schedule={case['schedule']} first={case.get('first', 0)}"))
            outs.append("exc")
        elif ex.results[i] != solo_of(n):
            a, b = ex.results[i].splitlines(), solo_of(n).splitlines()
            diff = next((f"line {j + 1}: got {x!r} solo {y!r}" for j, (x, y) in enumerate(itertools.zip_longest(a, b, fillvalue="<eof>")) if x != y), "?")
            viol.append(core.viol("thread_output_differs_from_solo", n, shape, f"{diff} schedule={case['schedule']} first={case.get('first', 0)}"))
            outs.append("diff")
        else:
            outs.append("ok")
    if diverged:
        outs.append("diverged")
    return {"obs": ["/".join(outs)], "viol": viol, "execs": 1, "trans": sum(ex.steps), "outcome": "/".join(outs),
            "show": f"{names} schedule={case['schedule']} steps={ex.steps}", "tail": (ex.tail if case.get("tail", True) and not diverged else None),
            "steps": ex.steps, "nontrivial": core.digest([names, case["schedule"], case.get("first", 0)]) if case["schedule"] else None}


def _strip_exc(res):
    return res


def _any_thread(case):
    fw, layout, inp = case["fw"], case["layout"], case["input"]
    out = {}

    def work():
        try:
            out["r"] = pipeline.render(pipeline.build(copy.deepcopy(INPUTS[inp])).reg, fw, layout)
        except BaseException as e:
            out["e"] = e
    t = threading.Thread(target=work)
    t.start()
    t.join(60)
    want = pipeline.render(pipeline.build(copy.deepcopy(INPUTS[inp])).reg, fw, layout)
    viol = []
    shape = [fw, layout]
    if "e" in out:
        viol.append(core.viol("generation_fails_in_worker_thread", core.exc_site(out["e"]), shape, f"{type(out['e']).__name__}: {out['e']}"))
    elif out.get("r") != want:
        viol.append(core.viol("worker_thread_output_differs", fw, shape, ""))
    return {"obs": ["any_thread:" + ("ok" if not viol else "bad")], "viol": viol, "outcome": "any_thread_ok" if not viol else "any_thread_bad",
            "show": f"{fw}/{layout}/{inp} in a fresh worker thread", "nontrivial": None}


def _free_running(case):
    """supplementary: k threads free-running under a minimal switch interval (never decides alone, but a difference is real)"""
    names = case["threads"]
    old = sys.getswitchinterval()
    sys.setswitchinterval(1e-6)
    viol = []
    try:
        for _ in range(case["rounds"]):
            res = {}
            barrier = threading.Barrier(len(names))

            def work(i, n):
                try:
                    barrier.wait()
                    _, fw, layout, kw = BODIES[n]
                    res[i] = pipeline.render(_build(n), fw, layout, **kw)
                except BaseException as e:
                    res[i] = e
            ts = [threading.Thread(target=work, args=(i, n)) for i, n in enumerate(names)]
            for t in ts:
                t.start()
            for t in ts:
                t.join(60)
            for i, n in enumerate(names):
                if isinstance(res.get(i), BaseException) or res.get(i) != solo(n):
                    viol.append(core.viol("free_running_thread_differs_from_solo", n, sorted(set(names)), repr(res.get(i))[:200]))
                    return {"obs": ["free:bad"], "viol": viol, "outcome": "free_bad", "show": str(names)}
    finally:
        sys.setswitchinterval(old)
    return {"obs": ["free:ok"], "viol": viol, "outcome": "free_ok", "show": f"{names} x{case['rounds']}", "execs": case["rounds"], "nontrivial": None}


def _expand(case, res):
    """children of a schedule: one more preemption at every recorded point after the last one"""
    out = []
    last = case["schedule"][-1] if case["schedule"] else None
    for tid, step, others in res["tail"]:
        if last is not None and tid == last[2] and False:
            continue
        for nxt in others:
            c = dict(case)
            c["schedule"] = case["schedule"] + [[tid, step, nxt]]
            out.append(c)
    return out


def run(tier, seed):
    global INPUTS
    r = core.Run(PROP, tier, seed)
    INPUTS = INPUTS_SMALL      # both tiers explore schedules on the small inputs; thorough adds plans (line granularity bound 2, whole pipeline, 3 threads)
    for n in BODIES:
        solo(n)
    plans = []
    if tier == "quick":
        for pair in (["T1", "T2"], ["T1", "T3"], ["T3", "T2"]):
            plans.append({"threads": pair, "gran": "call", "bound": 2, "whole": False})
            plans.append({"threads": pair, "gran": "line", "bound": 1, "whole": False})
            # whole pipeline (metadata generation + registry + merge + layout + rendering) inside the scheduled region
            plans.append({"threads": pair, "gran": "call", "bound": 1, "whole": True})
        plans.append({"threads": ["T5", "T6"], "gran": "call", "bound": 1, "whole": True})
        plans.append({"threads": ["T5", "T6"], "gran": "line", "bound": 1, "whole": True})
        plans.append({"threads": ["T4", "T2"], "gran": "line", "bound": 1, "whole": False})
        plans.append({"threads": ["T14", "T15"], "gran": "call", "bound": 1, "whole": True, "marks": ["ruamel"]})
        for fill in (510, 1020):
            plans.append({"threads": ["T18", "T19"], "gran": "line", "bound": 1, "whole": True, "prefill": fill})
        plans.append({"threads": ["T20", "T21"], "gran": "call", "bound": 1, "whole": True})
        plans.append({"threads": ["T20", "T21"], "gran": "call", "bound": 2, "whole": False})
        plans.append({"threads": ["T16", "T17"], "gran": "call", "bound": 1, "whole": True})
        plans.append({"threads": ["T16", "T17"], "gran": "line", "bound": 1, "whole": True})
        # merges whose decision compares nested models deeply (ModelMeta.__eq__ / merge_field_sets) in both threads at once
        plans.append({"threads": ["T12", "T13"], "gran": "call", "bound": 1, "whole": True})
        plans.append({"threads": ["T12", "T12"], "gran": "call", "bound": 1, "whole": True})
        plans.append({"threads": ["T12", "T13"], "gran": "line", "bound": 1, "whole": True})
        # shared process-wide state: default registry (T7, T8) and the CLI's datetime registration (T9, T10); forked per schedule
        for pair in (["T7", "T8"], ["T9", "T10"]):
            plans.append({"threads": pair, "gran": "call", "bound": 1, "whole": True})
            plans.append({"threads": pair, "gran": "line", "bound": 1, "whole": True})
        plans.append({"threads": ["T9", "T10"], "gran": "call", "bound": 1, "whole": True, "warm": True})
        plans.append({"threads": ["T9", "T10"], "gran": "line", "bound": 1, "whole": True, "warm": True})
        plans.append({"threads": ["T7", "T8"], "gran": "line", "bound": 1, "whole": True, "warm": True})
        plans.append({"threads": ["T9", "T11"], "gran": "call", "bound": 1, "whole": True, "warm": True})
        plans.append({"threads": ["T9", "T11"], "gran": "line", "bound": 1, "whole": True, "warm": True})
        # 4 and 8 concurrent pipelines (the statement speaks of 2-8): every single preemption among 4, every start order of 8
        plans.append({"threads": ["T1", "T2", "T3", "T4"], "gran": "call", "bound": 1, "whole": False})
        plans.append({"threads": ["T1", "T2", "T3", "T4", "T5", "T6", "T1", "T3"], "gran": "call", "bound": 0, "whole": False})
        # cheap plans first: a wall-budget cap then cuts the largest bound-2 plan, never the bound-1 coverage
        plans.sort(key=lambda pl: (pl["bound"], pl["gran"] == "call" and pl["bound"] == 2))
    else:
        for pair in itertools.combinations(["T1", "T2", "T3", "T4"], 2):
            plans.append({"threads": list(pair), "gran": "call", "bound": 2, "whole": False})
            plans.append({"threads": list(pair), "gran": "line", "bound": 1, "whole": False})
        for pair in (["T1", "T3"], ["T1", "T2"]):
            plans.append({"threads": pair, "gran": "line", "bound": 2, "whole": False})
            plans.append({"threads": pair, "gran": "call", "bound": 2, "whole": True})
        plans.append({"threads": ["T1", "T3"], "gran": "opcode", "bound": 1, "whole": False})
        plans.append({"threads": ["T1", "T2"], "gran": "opcode", "bound": 1, "whole": False})
        plans.append({"threads": ["T5", "T6"], "gran": "call", "bound": 2, "whole": True})
        plans.append({"threads": ["T5", "T6"], "gran": "line", "bound": 2, "whole": True})
        for pair in (["T7", "T8"], ["T9", "T10"], ["T7", "T9"]):
            plans.append({"threads": pair, "gran": "call", "bound": 2, "whole": True})
            plans.append({"threads": pair, "gran": "line", "bound": 1, "whole": True})
        for pair in (["T9", "T10"], ["T9", "T11"], ["T7", "T8"]):
            plans.append({"threads": pair, "gran": "call", "bound": 2, "whole": True, "warm": True})
            plans.append({"threads": pair, "gran": "line", "bound": 1, "whole": True, "warm": True})
        for tri in (["T1", "T2", "T3"],):
            plans.append({"threads": tri, "gran": "call", "bound": 2, "whole": False})
        plans.append({"threads": ["T1", "T2", "T3", "T4"], "gran": "call", "bound": 1, "whole": True})
        for pair in (["T12", "T13"], ["T12", "T12"]):
            plans.append({"threads": pair, "gran": "call", "bound": 2, "whole": True})
            plans.append({"threads": pair, "gran": "line", "bound": 1, "whole": True})
        plans.append({"threads": ["T1", "T2", "T3", "T4", "T5", "T6", "T1", "T3"], "gran": "call", "bound": 1, "whole": False})
    r.rule = ("(a) 5 frameworks x 2 layouts in a fresh worker thread; (b) all schedules with <= bound preemptions for each plan (thread tuple, "
              "granularity, bound): quick 3 pairs (either thread may start) at call granularity bound 2 + line granularity bound 1; thorough all ordered pairs "
              "of 4 bodies, line granularity bound 2, whole-pipeline bodies and opcode granularity (bound 1) on two pairs, one triple; state = tuple of per-thread outcomes; "
              "transitions = scheduling points executed; non-trivial = schedules with >= 1 preemption")
    r.bounds = {"tier": tier, "plans": plans}
    r.assumptions = ["CPython with the GIL; switches between bytecodes of one line are not explored",
                     "scheduling points only inside json_to_models frames: third-party code (jinja2, inflection, unidecode) runs atomically",
                     "free-running pass is supplementary evidence, not the deciding step"]
    # (a)
    anyt = [{"k": "any_thread", "fw": fw, "layout": lay, "input": inp}
            for fw in pipeline.FRAMEWORKS for lay in ("flat", "nested")
            for inp in (("shared" if lay == "flat" else "literal"), "nonascii", "intfloat", "poly")]
    for case, res in core.pmap(execute, anyt, chunksize=1):
        r.add(case, res)
    # (b) iterative preemption bounding
    budget = 400 if tier == "quick" else 2400
    import time
    t0 = time.time()
    completed = {}
    for plan in plans:
        level = [{"k": "sched", "threads": plan["threads"], "gran": plan["gran"], "whole": plan["whole"], "schedule": [], "first": f,
                  "tail": plan["bound"] > 0, "warm": bool(plan.get("warm")), "marks": plan.get("marks", []), "prefill": plan.get("prefill", 0)} for f in range(len(plan["threads"]))]
        key = f"{'+'.join(plan['threads'])}:{plan['gran']}{':whole' if plan['whole'] else ''}{':warm' if plan.get('warm') else ''}{':prefill%d' % plan['prefill'] if plan.get('prefill') else ''}"
        for depth in range(plan["bound"] + 1):
            nxt = []
            want_tail = depth < plan["bound"]
            for c in level:
                c["tail"] = want_tail
            remaining = budget - (time.time() - t0)
            if remaining <= 0:
                r.caps.append(f"wall budget: plan {key} stopped before bound {depth}")
                break
            n_done = 0
            for case, res in core.pmap(execute, level, chunksize=8, budget_s=remaining):
                tail = res.pop("tail", None)
                res.pop("steps", None)
                r.add({k: v for k, v in case.items() if k != "tail"}, res)
                n_done += 1
                if want_tail and tail is not None:
                    nxt.extend(_expand(case, {"tail": tail}))
            if core.pmap.capped or n_done < len(level):
                r.caps.append(f"wall budget: plan {key} bound {depth} incomplete ({n_done}/{len(level)})")
                core.pmap.capped = False
                break
            completed[key] = {"bound_completed": depth, "schedules_at_bound": len(level)}
            level = nxt
    r.extra["plans_completed"] = completed
    # (c)
    free = [{"k": "free", "threads": t, "rounds": 30 if tier == "quick" else 150} for t in
            (["T1", "T2"], ["T1", "T3", "T2", "T4"], ["T1", "T3"] * 4)]
    for case, res in core.pmap(execute, free, chunksize=1):
        r.add(case, res)

    def replay(case):
        c = dict(case)
        c["tail"] = False
        a = execute(c)
        b = execute(c)
        sa = sorted((v["clause"], v["site"]) for v in a["viol"])
        sb = sorted((v["clause"], v["site"]) for v in b["viol"])
        if c["k"] == "sched" and sa != sb:
            # the scheduler is deterministic; two replays of one schedule that disagree mean that the library's result depends on
            # something else that outlives a run (garbage-collection timing of a weak table, allocator state): the failing replay stands
            r.extra["schedule_replays_that_disagree"] = r.extra.get("schedule_replays_that_disagree", 0) + 1
            if not a["viol"]:
                a = b
        a.pop("tail", None)
        a.pop("steps", None)
        return a
    return r.finish(replay_fn=replay)
