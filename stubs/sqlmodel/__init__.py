"""Offline stand-in for the `sqlmodel` package (SQLModel is not installed in this sandbox and
nothing can be fetched).  It forwards to pydantic.v1, which is what the emitted sqlmodel code is
modelled on: `class X(SQLModel, table=True)` behaves as a pydantic.v1 BaseModel, and `Field` drops
the SQL-only keyword arguments.  Verdicts obtained through this stub are about the emitted text,
not about SQLModel itself (DESIGN.md section 5)."""
from pydantic.v1 import BaseModel as _BaseModel, Field as _Field
from pydantic.v1.main import ModelMetaclass as _Meta

_SQL_ONLY = ("primary_key", "foreign_key", "index", "unique", "nullable", "sa_column",
             "sa_column_args", "sa_column_kwargs")


class _SQLModelMeta(_Meta):
    def __new__(mcs, name, bases, namespace, table=False, **kwargs):
        cls = super().__new__(mcs, name, bases, namespace, **kwargs)
        cls.__j2m_table__ = bool(table)
        return cls

    def __init__(cls, name, bases, namespace, table=False, **kwargs):
        super().__init__(name, bases, namespace, **kwargs)


class SQLModel(_BaseModel, metaclass=_SQLModelMeta):
    pass


def Field(default=..., **kwargs):
    sql = {k: kwargs.pop(k) for k in _SQL_ONLY if k in kwargs}
    f = _Field(default, **kwargs)
    try:
        f.extra["j2m_sql"] = sql
    except Exception:
        pass
    return f
