"""E8 - CLI drivers: the real `json_to_models.cli.main()` in a forked child (in-process driver) and
`python -m json_to_models` as a subprocess (binding), plus header handling."""
import io
import json
import os
import subprocess
import sys
import traceback

from . import pipeline


def run_inproc(argv, cwd, pre=()):
    """(status, stdout, stderr) of main() with sys.argv = ['json2models'] + argv, run in a forked child so
    that the process-global string registry and registered datetime classes die with it.
    pre: argument lists of earlier main() runs in the SAME child (their output is discarded): a long-lived process that calls
    the command line entry point several times."""
    r, w = os.pipe()
    pid = os.fork()
    if pid == 0:
        status, out, err = 0, "", ""
        try:
            os.close(r)
            os.chdir(cwd)
            for pre_argv in pre:
                o0 = sys.stdout, sys.stderr, sys.argv
                sys.stdout, sys.stderr, sys.argv = io.StringIO(), io.StringIO(), ["json2models"] + list(pre_argv)
                try:
                    from json_to_models.cli import main as _m
                    _m()
                except BaseException:
                    pass
                finally:
                    sys.stdout, sys.stderr, sys.argv = o0
            so, se = io.StringIO(), io.StringIO()
            old = sys.stdout, sys.stderr, sys.argv
            sys.stdout, sys.stderr, sys.argv = so, se, ["json2models"] + list(argv)
            try:
                from json_to_models.cli import main
                main()
            except SystemExit as e:
                status = e.code if isinstance(e.code, int) else (0 if e.code is None else 1)
            except BaseException as e:
                status = 1
                se.write("".join(traceback.format_exception(type(e), e, e.__traceback__)))
            finally:
                sys.stdout, sys.stderr, sys.argv = old
            out, err = so.getvalue(), se.getvalue()
        except BaseException:
            status, err = 98, traceback.format_exc()
        finally:
            try:
                with os.fdopen(w, "w", encoding="utf8", errors="surrogatepass") as f:
                    json.dump([status, out, err], f)
            finally:
                os._exit(0)
    os.close(w)
    with os.fdopen(r, encoding="utf8", errors="surrogatepass") as f:
        data = f.read()
    os.waitpid(pid, 0)
    if not data:
        return 99, "", "driver: child produced no result"
    status, out, err = json.loads(data)
    return status, out, err


def run_subprocess(argv, cwd, hashseed="0", timeout=120):
    env = dict(os.environ)
    env["PYTHONPATH"] = pipeline.REPO + os.pathsep + os.path.join(pipeline.VERIF, "stubs")
    env["PYTHONHASHSEED"] = str(hashseed)
    env["PYTHONIOENCODING"] = "utf-8"
    env.pop("TRAVIS", None)
    env.pop("FORCE_COVERAGE", None)
    p = subprocess.run([sys.executable, "-m", "json_to_models"] + list(argv), cwd=cwd, env=env, capture_output=True, timeout=timeout)
    return p.returncode, p.stdout.decode("utf8", "surrogateescape"), p.stderr.decode("utf8", "surrogateescape")


def _header_end(text):
    """line count of the first statement if it is a bare string constant (the header), else None"""
    import ast
    try:
        tree = ast.parse(text)
    except (SyntaxError, ValueError):
        return None
    if tree.body and isinstance(tree.body[0], ast.Expr) and isinstance(tree.body[0].value, ast.Constant) \
            and isinstance(tree.body[0].value.value, str):
        return tree.body[0].end_lineno
    return None


def split_header(text):
    """(header, rest): the header is the first statement when it is a string constant (whatever its wording)"""
    n = _header_end(text)
    if n is None:
        return None, text
    lines = text.split("\n")
    return "\n".join(lines[:n]) + "\n", "\n".join(lines[n:])


_TS = None


def strip_timestamp(text):
    """blank out the time stamp inside the header (the only thing the property allows to differ between runs)"""
    global _TS
    import re
    if _TS is None:
        _TS = re.compile(r"[A-Z][a-z]{2} [A-Z][a-z]{2} [ \d]\d \d\d:\d\d:\d\d \d{4}|\d{4}-\d\d-\d\d[ T]\d\d:\d\d:\d\d(\.\d+)?")
    header, rest = split_header(text)
    if header is None:
        lines = text.split("\n")
        head, tail = "\n".join(lines[:6]), "\n".join(lines[6:])
        return _TS.sub("<timestamp>", head) + ("\n" + tail if len(lines) > 6 else "")
    return _TS.sub("<timestamp>", header) + rest
