"""Loading and inspecting emitted modules (C01 c/d, C03, C04, C10, C11, C12, C18).

Trusted base: CPython's compile/exec, typing.get_type_hints, the field tables of pydantic.v1 / attrs /
dataclasses.  The sqlmodel framework is loaded against stubs/sqlmodel (see DESIGN.md section 5)."""
import ast
import dataclasses
import itertools
import sys
import types
import typing
from datetime import date, datetime, time

from . import pipeline  # noqa: F401
from . import ir
from json_to_models.dynamic_typing import StringSerializable
from json_to_models.models.base import METADATA_FIELD_NAME

try:
    from typing_extensions import Literal as TE_Literal
except Exception:  # pragma: no cover
    TE_Literal = typing.Literal

_counter = itertools.count()
MISSING = object()


class LoadError(Exception):
    def __init__(self, stage, exc):
        super().__init__(f"{stage}: {type(exc).__name__}: {exc}")
        self.stage, self.exc = stage, exc


class Program:
    """An emitted module, executed with only its own imports in a throw-away module object."""

    def __init__(self, text, framework):
        self.text, self.framework = text, framework
        self.name = f"j2m_gen_{next(_counter)}"
        self.mod = None
        self.tree = None

    def __enter__(self):
        try:
            self.tree = ast.parse(self.text)
            code = compile(self.text, f"<{self.name}>", "exec")
        except (SyntaxError, ValueError) as e:
            raise LoadError("compile", e)
        self.mod = types.ModuleType(self.name)
        sys.modules[self.name] = self.mod
        try:
            exec(code, self.mod.__dict__)
        except BaseException as e:
            sys.modules.pop(self.name, None)
            if isinstance(e, (KeyboardInterrupt, SystemExit)):
                raise
            raise LoadError("exec", e)
        return self

    def __exit__(self, *a):
        sys.modules.pop(self.name, None)
        return False

    # ---- static structure (from the AST: what the text defines, independent of name clashes) ----
    def class_defs(self):
        """list of (qualname tuple, ast.ClassDef) for every class statement, nested included"""
        out = []

        def rec(body, prefix):
            for node in body:
                if isinstance(node, ast.ClassDef):
                    q = prefix + (node.name,)
                    out.append((q, node))
                    rec(node.body, q)
        rec(self.tree.body, ())
        return out

    def imported_names(self):
        """{bound name: (module, original name)} for the module's own import statements"""
        out = {}
        for node in self.tree.body:
            if isinstance(node, ast.ImportFrom):
                for a in node.names:
                    out[a.asname or a.name] = (node.module, a.name)
            elif isinstance(node, ast.Import):
                for a in node.names:
                    out[(a.asname or a.name).split(".")[0]] = (a.name, None)
        return out

    def resolve(self, qual):
        """class object for a qualname tuple, via module namespace and class attributes"""
        obj = self.mod.__dict__.get(qual[0], MISSING)
        for part in qual[1:]:
            if obj is MISSING:
                break
            obj = vars(obj).get(part, MISSING) if isinstance(obj, type) else MISSING
        return obj

    def localns(self, qual):
        """namespace visible to annotations of class `qual`: enclosing classes outermost first, then itself"""
        ns = {}
        for i in range(1, len(qual) + 1):
            c = self.resolve(qual[:i])
            if isinstance(c, type):
                for k, v in vars(c).items():
                    if isinstance(v, type):
                        ns[k] = v
                ns[qual[i - 1]] = c
        return ns

    def hints(self, qual):
        cls = self.resolve(qual)
        return typing.get_type_hints(cls, globalns=dict(self.mod.__dict__), localns=self.localns(qual))

    def own_annotations(self, qual):
        cls = self.resolve(qual)
        return dict(vars(cls).get("__annotations__", {}))


# ------------------------------------------------------------------------------------------------
# field tables
# ------------------------------------------------------------------------------------------------

class F:
    __slots__ = ("name", "key", "has_default", "default", "factory", "raw")

    def __repr__(self):
        return f"F({self.name!r}, key={self.key!r}, default={self.has_default})"


def field_table(cls, framework, meta_on=False):
    """list of F for the class's own declared fields, in declaration order.
    key = the JSON key recoverable from the class (alias / metadata / the name itself)."""
    out = []
    if framework in ("pydantic", "sqlmodel"):
        for name, mf in cls.__fields__.items():
            f = F()
            f.name, f.key = name, mf.alias
            f.has_default = not mf.required
            f.factory = getattr(mf, "default_factory", None)
            f.default = mf.default
            f.raw = mf
            out.append(f)
    elif framework == "attrs":
        import attr
        for a in attr.fields(cls):
            f = F()
            f.name = a.name
            f.key = a.metadata.get(METADATA_FIELD_NAME, a.name)
            f.has_default = a.default is not attr.NOTHING
            f.factory = a.default.factory if isinstance(a.default, attr.Factory) else None
            f.default = None if f.factory else a.default
            f.raw = a
            out.append(f)
    elif framework == "dataclasses":
        for d in dataclasses.fields(cls):
            f = F()
            f.name = d.name
            f.key = d.metadata.get(METADATA_FIELD_NAME, d.name)
            f.factory = None if d.default_factory is dataclasses.MISSING else d.default_factory
            f.has_default = d.default is not dataclasses.MISSING or f.factory is not None
            f.default = None if d.default is dataclasses.MISSING else d.default
            f.raw = d
            out.append(f)
    else:  # base: annotations only; "default" is read as "annotated Optional" (DESIGN C01)
        for name in vars(cls).get("__annotations__", {}):
            f = F()
            f.name, f.key = name, name
            f.has_default = name in vars(cls)
            f.default, f.factory, f.raw = vars(cls).get(name), None, None
            out.append(f)
    return out


# ------------------------------------------------------------------------------------------------
# typing objects
# ------------------------------------------------------------------------------------------------

def is_optional_hint(h):
    return typing.get_origin(h) is typing.Union and type(None) in typing.get_args(h)


def hint_kind(h):
    if h is typing.Any:
        return "any"
    if h is None or h is type(None):
        return "null"
    o = typing.get_origin(h)
    if o is typing.Union:
        return "union"
    if o in (list, typing.List):
        return "list"
    if o in (dict, typing.Dict):
        return "dict"
    if o is typing.Literal or o is TE_Literal:
        return "literal"
    if isinstance(h, typing.ForwardRef) or isinstance(h, str):
        return "forwardref"
    if isinstance(h, type):
        if h in ir.PLAIN:
            return ir.PLAIN[h]
        if issubclass(h, StringSerializable):
            return "pseudo"
        if h in (date, time, datetime):
            return "actual"
        return "class"
    return "other"


def admits_hint(h, v, prog, framework, classes):
    """Does the evaluated annotation h admit JSON value v (base/attrs/dataclasses reading)?
    classes: {class object: qualname} of the module's model classes."""
    k = hint_kind(h)
    if k == "any":
        return True
    if k == "null":
        return v is None
    if k == "bool":
        return isinstance(v, bool)
    if k == "int":
        return isinstance(v, int) and not isinstance(v, bool)
    if k == "float":
        return isinstance(v, float) or (isinstance(v, int) and not isinstance(v, bool))
    if k == "str":
        return isinstance(v, str)
    if k == "pseudo":
        if not isinstance(v, str):
            return False
        try:
            return ir.parses(h, v)
        except Exception:
            return False
    if k == "literal":
        return isinstance(v, str) and v in typing.get_args(h)
    if k == "union":
        return any(admits_hint(a, v, prog, framework, classes) for a in typing.get_args(h))
    if k == "list":
        (a,) = typing.get_args(h) or (typing.Any,)
        return isinstance(v, list) and all(admits_hint(a, e, prog, framework, classes) for e in v)
    if k == "dict":
        args = typing.get_args(h) or (str, typing.Any)
        return isinstance(v, dict) and all(isinstance(kk, str) for kk in v) and \
            all(admits_hint(args[1], e, prog, framework, classes) for e in v.values())
    if k == "class" and h in classes:
        return object_accepted(h, v, prog, framework, classes) is None
    return False


def object_accepted(cls, v, prog, framework, classes, path="$", allow_drop=None, meta_on=False):
    """None if the class accepts object v structurally, else (clause, path, detail).
    allow_drop: callable(cls, key) -> True if that key may be missing from the class."""
    if not isinstance(v, dict):
        return ("value_not_admitted", path, f"class {cls.__name__} vs {ir.jkind(v)}")
    qual = classes[cls]
    table = field_table(cls, framework)
    try:
        hints = prog.hints(qual)
    except Exception as e:
        return ("annotation_unresolvable", path, f"{type(e).__name__}: {e}")
    by_key = {}
    for f in table:
        by_key.setdefault(f.key, []).append(f)
    for key, val in v.items():
        fs = by_key.get(key, [])
        if not fs:
            if allow_drop and allow_drop(cls, key):
                continue
            return ("key_not_a_field", f"{path}.{key}", f"class {cls.__name__} has fields {[ (f.name, f.key) for f in table]}")
        if len(fs) > 1:
            return ("key_maps_to_several_fields", f"{path}.{key}", str(fs))
        f = fs[0]
        if framework in ("pydantic", "sqlmodel"):
            # value-level acceptance is judged by parse_obj; recurse only into model classes
            h = hints.get(f.name, typing.Any)
            for sub_cls, sub_v in _model_positions(h, val, classes):
                r = object_accepted(sub_cls, sub_v, prog, framework, classes, f"{path}.{key}", allow_drop)
                if r:
                    return r
            continue
        h = hints.get(f.name, MISSING)
        if h is MISSING:
            return ("field_without_annotation", f"{path}.{key}", f.name)
        if not admits_hint(h, val, prog, framework, classes):
            # find a deeper reason if the value is an object routed to a unique class
            for sub_cls, sub_v in _model_positions(h, val, classes):
                r = object_accepted(sub_cls, sub_v, prog, framework, classes, f"{path}.{key}", allow_drop)
                if r:
                    return r
            return ("value_not_admitted", f"{path}.{key}", f"{h!r} vs {ir.jkind(val)} {val!r}"[:200])
    for f in table:
        if f.key not in v:
            if framework == "base":
                h = hints.get(f.name, MISSING)
                if not (h is not MISSING and (is_optional_hint(h) or h is typing.Any or h is type(None))):
                    return ("required_field_absent", f"{path}.{f.key}", f"{f.name}: {h!r}")
            elif not f.has_default:
                return ("required_field_absent", f"{path}.{f.key}", f.name)
    return None


def _model_positions(h, v, classes):
    """(class, object) pairs where value v meets a model class inside hint h, when unambiguous"""
    k = hint_kind(h)
    if k == "class" and h in classes and isinstance(v, dict):
        yield h, v
    elif k == "union":
        cands = [a for a in typing.get_args(h) if hint_kind(a) == "class" and a in classes]
        if isinstance(v, dict) and len(cands) == 1 and not any(hint_kind(a) == "dict" for a in typing.get_args(h)):
            yield cands[0], v
        elif isinstance(v, (list,)):
            for a in typing.get_args(h):
                if hint_kind(a) == "list":
                    yield from _model_positions(a, v, classes)
        elif isinstance(v, dict):
            for a in typing.get_args(h):
                if hint_kind(a) == "dict" and not cands:
                    yield from _model_positions(a, v, classes)
    elif k == "list" and isinstance(v, list):
        (a,) = typing.get_args(h) or (typing.Any,)
        for e in v:
            yield from _model_positions(a, e, classes)
    elif k == "dict" and isinstance(v, dict):
        args = typing.get_args(h) or (str, typing.Any)
        for e in v.values():
            yield from _model_positions(args[1], e, classes)


def model_classes(prog, reg):
    """({model index: (qualname, class)}, problems) mapping every registered model to the class emitted
    for it (matched by class name, which generate_code has written back into the registry)."""
    defs = prog.class_defs()
    by_name = {}
    for q, node in defs:
        by_name.setdefault(q[-1], []).append(q)
    out, problems = {}, []
    for idx, m in reg.models_map.items():
        qs = by_name.get(m.name, [])
        if len(qs) != 1:
            problems.append((idx, m.name, len(qs)))
            continue
        c = prog.resolve(qs[0])
        if not isinstance(c, type):
            problems.append((idx, m.name, "unresolved"))
            continue
        out[idx] = (qs[0], c)
    return out, problems


def update_forward_refs(prog, mapping):
    """pydantic/sqlmodel: resolve forward references of every model class with its enclosing-class
    namespaces (what a user of nested output has to do by hand)."""
    for idx, (qual, cls) in mapping.items():
        cls.update_forward_refs(**prog.localns(qual))
