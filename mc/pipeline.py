"""Drivers onto the real code under test (the working tree named by VERIF_REPO, default /repo).

Nothing here re-implements library behaviour: every function calls the library's public seams
(MetadataGenerator, ModelRegistry, compose_models*, generate_code) on fresh objects.
"""
import os
import sys

REPO = os.environ.get("VERIF_REPO", "/repo")
VERIF = os.path.dirname(os.path.dirname(os.path.abspath(__file__)))
GUARD = "JSON2MODELS_VERIF"

sys.dont_write_bytecode = True
os.environ.setdefault("PYTHONDONTWRITEBYTECODE", "1")


def setup_path():
    """Put the tree under test first on sys.path, the sqlmodel stub after it."""
    for p in (os.path.join(VERIF, "stubs"), REPO):
        if p in sys.path:
            sys.path.remove(p)
        sys.path.insert(0, p)
    os.environ[GUARD] = "1"


setup_path()

if os.environ.get("VERIF_VSET") == "1":
    # E3: load the library through the set-order instrumentation (mc/vset.py)
    from . import vset as _vset
    _vset.install(REPO)

import json_to_models  # noqa: E402

if not os.path.abspath(json_to_models.__file__).startswith(os.path.abspath(REPO) + os.sep):
    raise RuntimeError(f"harness error: json_to_models imported from {json_to_models.__file__}, not {REPO}")

from json_to_models.dynamic_typing import (  # noqa: E402
    BooleanString, FloatString, IntString, IsoDateString, IsoDatetimeString, IsoTimeString,
    StringSerializableRegistry,
)
from json_to_models.generator import MetadataGenerator  # noqa: E402
from json_to_models.models.attr import AttrsModelCodeGenerator  # noqa: E402
from json_to_models.models.base import GenericModelCodeGenerator, generate_code  # noqa: E402
from json_to_models.models.dataclasses import DataclassModelCodeGenerator  # noqa: E402
from json_to_models.models.pydantic import PydanticModelCodeGenerator  # noqa: E402
from json_to_models.models.sqlmodel import SqlModelCodeGenerator  # noqa: E402
from json_to_models.models.structure import compose_models, compose_models_flat  # noqa: E402
from json_to_models.registry import (  # noqa: E402
    ModelFieldsEquals, ModelFieldsNumberMatch, ModelFieldsPercentMatch, ModelRegistry,
)

PSEUDO = {
    "IntString": IntString, "FloatString": FloatString, "BooleanString": BooleanString,
    "IsoDateString": IsoDateString, "IsoTimeString": IsoTimeString, "IsoDatetimeString": IsoDatetimeString,
}


def _chain_types():
    """three user-defined pseudo-types whose replacement relation is a chain WITHOUT the transitive pair (Bin <- Oct <- Hex):
    the shape the library's own registry test declares; a legal use of the public StringSerializableRegistry API"""
    from json_to_models.dynamic_typing import StringSerializable

    def make(name, digits):
        def to_internal_value(cls, value):
            if not value or any(ch not in digits for ch in value):
                raise ValueError(value)
            return cls(value)
        return type(name, (StringSerializable, str), {"actual_type": str, "to_internal_value": classmethod(to_internal_value),
                                                      "to_representation": lambda self: str(self)})
    return {"BinString": make("BinString", "01"), "OctString": make("OctString", "01234567"), "HexString": make("HexString", "0123456789abcdef")}


PSEUDO.update(_chain_types())
CHAIN_TYPES = ("BinString", "OctString", "HexString")
CHAIN_REPLACES = {"OctString": ("BinString",), "HexString": ("OctString",)}
DEFAULT_TYPES = ("IntString", "FloatString", "BooleanString")
DATETIME_TYPES = ("IsoDateString", "IsoTimeString", "IsoDatetimeString")
ALL_TYPES = DEFAULT_TYPES + DATETIME_TYPES

FRAMEWORKS = {
    "base": GenericModelCodeGenerator,
    "pydantic": PydanticModelCodeGenerator,
    "sqlmodel": SqlModelCodeGenerator,
    "attrs": AttrsModelCodeGenerator,
    "dataclasses": DataclassModelCodeGenerator,
}
LAYOUTS = {"flat": compose_models_flat, "nested": compose_models}


def make_str_registry(names=DEFAULT_TYPES):
    """A fresh explicit registry built through the public API in the given registration order. When the three datetime types come
    last in their canonical order they are registered the way users do it: with the library's own register_datetime_classes()."""
    from json_to_models.dynamic_typing import register_datetime_classes
    names = list(names)
    reg = StringSerializableRegistry()
    tail_dt = len(names) >= 3 and tuple(names[-3:]) == DATETIME_TYPES
    for n in (names[:-3] if tail_dt else names):
        cls = PSEUDO[n]
        if cls is FloatString:
            reg.add(replace_types=(IntString,), cls=cls)
        elif n in CHAIN_REPLACES:
            reg.add(replace_types=tuple(PSEUDO[x] for x in CHAIN_REPLACES[n]), cls=cls)
        else:
            reg.add(cls=cls)
    if tail_dt:
        register_datetime_classes(reg)
    return reg


def make_cmps(policy):
    """policy: None/'default' | list of ('exact',) ('percent', p) ('number', n)"""
    if policy in (None, "default"):
        return ()
    out = []
    for item in policy:
        kind = item[0]
        if kind == "exact":
            out.append(ModelFieldsEquals())
        elif kind == "percent":
            out.append(ModelFieldsPercentMatch(item[1]) if len(item) > 1 else ModelFieldsPercentMatch())
        elif kind == "number":
            out.append(ModelFieldsNumberMatch(item[1]) if len(item) > 1 else ModelFieldsNumberMatch())
        else:
            raise ValueError(kind)
    return tuple(out)


MERGE_POLICIES = {
    "default": None,
    "exact": [("exact",)],
    "percent_50": [("percent", 0.5)],
    "number_1": [("number", 1)],
    "percent_50+number_2": [("percent", 0.5), ("number", 2)],
    "number_10": [("number", 10)],     # small identical models stay separate: structurally equal siblings
}


class Built:
    __slots__ = ("gen", "reg", "root", "meta", "strreg", "merged")


def build(samples, types=DEFAULT_TYPES, dkr=None, dkf=None, merge="default", root_name="Root",
          do_merge=True, names=True, late_types=()):
    """samples -> fresh generator/registry, the real pipeline up to (and including) name generation.
    late_types: pseudo-types registered AFTER the generator object was constructed (a legal history of the public API)."""
    b = Built()
    b.strreg = make_str_registry([t for t in types if t not in late_types])
    b.gen = MetadataGenerator(str_types_registry=b.strreg, dict_keys_regex=dkr, dict_keys_fields=dkf)
    if late_types:
        if tuple(late_types) == DATETIME_TYPES:
            from json_to_models.dynamic_typing import register_datetime_classes
            register_datetime_classes(b.strreg)
        else:
            for n in late_types:
                if PSEUDO[n] is FloatString:
                    b.strreg.add(replace_types=(IntString,), cls=PSEUDO[n])
                else:
                    b.strreg.add(cls=PSEUDO[n])
    b.meta = b.gen.generate(*samples)
    b.reg = ModelRegistry(*make_cmps(MERGE_POLICIES[merge] if isinstance(merge, str) else merge))
    b.root = b.reg.process_meta_data(b.meta, model_name=root_name)
    b.merged = None
    if do_merge:
        b.merged = b.reg.merge_models(b.gen)
    if names:
        b.reg.generate_names()
    return b


def build_roots(roots, types=DEFAULT_TYPES, dkr=None, dkf=None, merge="default"):
    """{root name: samples} -> one generator, one registry, every root registered under its name (what the CLI does for several -m)"""
    b = Built()
    b.strreg = make_str_registry(types)
    b.gen = MetadataGenerator(str_types_registry=b.strreg, dict_keys_regex=dkr, dict_keys_fields=dkf)
    b.reg = ModelRegistry(*make_cmps(MERGE_POLICIES[merge] if isinstance(merge, str) else merge))
    b.root = None
    for name, samples in roots.items():
        ptr = b.reg.process_meta_data(b.gen.generate(*samples), model_name=name)
        b.root = b.root or ptr
    b.meta = None
    b.merged = b.reg.merge_models(b.gen)
    b.reg.generate_names()
    return b


MAX_TEXT = 3_000_000


class OutputExplosion(RuntimeError):
    pass


def render(reg, framework="pydantic", layout="flat", preamble=None, **gen_kwargs):
    structure = LAYOUTS[layout](reg.models_map)
    text = generate_code(structure, FRAMEWORKS[framework], class_generator_kwargs=gen_kwargs, preamble=preamble)
    if len(text) > MAX_TEXT and len(text) > 2000 * max(1, len(reg.models_map)):
        # no explored input has more than a few dozen small models: a text of megabytes means that something accumulates from
        # rendering to rendering (and the next one would be larger still)
        raise OutputExplosion(f"generated text has {len(text)} characters for {len(reg.models_map)} models")
    return text


def gen_kwargs_for(framework, converters=False, meta=False, unicode=True, max_literals=None):
    kw = {}
    if converters:
        kw["post_init_converters"] = True
    if not unicode:
        kw["convert_unicode"] = False
    if max_literals is not None:
        kw["max_literals"] = max_literals
    if meta and framework in ("attrs", "dataclasses"):
        kw["meta"] = True
    return kw
