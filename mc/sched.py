"""E6 - schedule explorer: real threads under a sys.settrace cooperative scheduler.

One baton: exactly one worker thread runs at a time; a worker reaches a *scheduling point* at every
`call` event (or every `line` event) of a frame whose code lives in json_to_models; the schedule is a
list of preemptions (thread, step index of that thread, next thread).  Without a pending preemption
the running thread continues; when a thread ends the lowest-numbered unfinished thread runs (free
switch).  A step is (thread, per-thread step index), so a schedule stays meaningful when another
thread's step count changes; a preemption that can no longer be honoured is a hard Divergence error."""
import os
import sys
import threading

MARK = os.sep + "json_to_models" + os.sep


class Divergence(Exception):
    pass


class Execution:
    def __init__(self, bodies, schedule, first=0, granularity="call", record_tail=True, timeout=60.0, marks=(MARK,)):
        self.bodies = bodies
        self.n = len(bodies)
        self.schedule = [tuple(x) for x in schedule]
        self.first = first
        self.gran = granularity
        self.record_tail = record_tail
        self.timeout = timeout
        self.marks = tuple(marks)     # path fragments of the code whose frames are scheduling points (default: the library only)
        self.sems = [threading.Semaphore(0) for _ in range(self.n)]
        self.steps = [0] * self.n
        self.done = [False] * self.n
        self.si = 0
        self.tail = []            # points after the last scheduled preemption: (tid, step, runnable others)
        self.results = [None] * self.n
        self.errors = [None] * self.n
        self.all_done = threading.Event()
        self.divergence = None
        self.switches = 0

    # called by the running worker only (the baton serialises everything)
    def point(self, tid):
        s = self.steps[tid]
        self.steps[tid] = s + 1
        if self.si < len(self.schedule):
            t, st, nxt = self.schedule[self.si]
            if t == tid:
                if st == s:
                    self.si += 1
                    if self.done[nxt]:
                        self.divergence = f"preemption {self.schedule[self.si - 1]}: target thread already finished"
                        return
                    self.switches += 1
                    self.sems[nxt].release()
                    self.sems[tid].acquire()
                elif s > st:
                    self.divergence = f"thread {tid} passed step {st} without the scheduled preemption"
        elif self.record_tail:
            others = tuple(i for i in range(self.n) if i != tid and not self.done[i])
            if others:
                self.tail.append((tid, s, others))

    def _finish(self, tid):
        self.done[tid] = True
        if self.si < len(self.schedule) and self.schedule[self.si][0] == tid:
            self.divergence = f"thread {tid} finished before its scheduled preemption {self.schedule[self.si]}"
        for i in range(self.n):
            if not self.done[i]:
                self.sems[i].release()
                return
        self.all_done.set()

    def _worker(self, tid):
        self.sems[tid].acquire()
        gran = self.gran
        point = self.point
        marks = self.marks

        def local(frame, event, arg):
            if event == "line":
                point(tid)
            return local

        def local_op(frame, event, arg):
            if event == "opcode":
                point(tid)
            return local_op

        def tracer(frame, event, arg):
            if event == "call" and any(m in frame.f_code.co_filename for m in marks):
                if gran == "call":
                    point(tid)
                    return None
                if gran == "opcode":
                    frame.f_trace_opcodes = True
                    frame.f_trace_lines = False
                    return local_op
                return local
            return None
        try:
            sys.settrace(tracer)
            try:
                self.results[tid] = self.bodies[tid]()
            finally:
                sys.settrace(None)
        except BaseException as e:  # the body's exception is an observation, not a harness error
            self.errors[tid] = e
        finally:
            self._finish(tid)

    def run(self):
        threads = [threading.Thread(target=self._worker, args=(i,), daemon=True) for i in range(self.n)]
        for t in threads:
            t.start()
        self.sems[self.first].release()
        if not self.all_done.wait(self.timeout):
            raise Divergence(f"watchdog: threads did not finish within {self.timeout}s (done={self.done}, steps={self.steps})")
        for t in threads:
            t.join(5)
        if self.divergence:
            raise Divergence(self.divergence)
        return self
