"""Finite alphabets (DESIGN.md section 2.1). Every symbol has a stable name; cases refer to symbols
by name so that replay artefacts and finding signatures are readable and seed-independent."""
import copy
import itertools

ABSENT = "<absent>"

# --- atoms: one per shortcut in MetadataGenerator._detect_type / StringLiteral / pseudo-type parsers
ATOMS = [
    ("null", None),
    ("int", 1),
    ("float", 1.5),
    ("true", True),
    ("lit_a", "a"),
    ("lit_b", "b"),
    ("lit_A", "A"),
    ("long", "x" * 20),
    ("s_int", "1"),
    ("s_float", "1.5"),
    ("s_bool", "true"),
    ("s_date", "2020-01-01"),
    ("s_time", "12:30"),
    ("s_dt", "2020-01-01T10:00:00"),
    ("s_empty", ""),
    ("elist", []),
    ("eobj", {}),
]
ATOM = dict(ATOMS)
STRING_ATOMS = ["lit_a", "lit_b", "lit_A", "long", "s_int", "s_float", "s_bool", "s_date", "s_time", "s_dt", "s_empty"]

VALUES = list(ATOMS)
VALUES += [(f"L({n})", [v]) for n, v in ATOMS]
VALUES += [
    ("L(int,lit_a)", [1, "a"]),
    ("L(null,int)", [None, 1]),
]
VALUES += [(f"O(k:{n})", {"k": ATOM[n]}) for n in ("int", "lit_a", "s_int", "null", "elist", "eobj")]
VALUES += [
    ("O(k:int,j:lit_a)", {"k": 1, "j": "a"}),
    ("LL(int)", [[1]]),
    ("LL()", [[]]),
    ("LL(null)", [[None]]),
    ("L(O(k:int))", [{"k": 1}]),
    ("L(O(k:lit_a),O(j:int))", [{"k": "a"}, {"j": 1}]),
    ("O(k:L(int))", {"k": [1]}),
    ("O(k:O(j:int))", {"k": {"j": 1}}),
    ("O(k:L(O(j:int)))", {"k": [{"j": 1}]}),
    # unions that directly contain an object next to a scalar (same keys, different value kinds across samples)
    ("L(O(k:int),int)", [{"k": 1}, 7]),
    ("L(O(k:lit_a),int)", [{"k": "a"}, 7]),
    # depth-3 shapes whose innermost type still needs simplification
    ("LL(int,float)", [[1, 2.5]]),
    ("L(O(k:L(int,null)))", [{"k": [1, None]}]),
]
VALUE = dict(VALUES)
VALUE_NAMES = [n for n, _ in VALUES]
ATOM_NAMES = [n for n, _ in ATOMS]


def value(name):
    return copy.deepcopy(VALUE[name])


def obj1(name, key="a"):
    """single-field object {"a": v} (or {} for <absent>)"""
    if name == ABSENT:
        return {}
    return {key: value(name)}


TWO_FIELD = [ABSENT, "int", "null", "lit_a"]


def obj2(n1, n2):
    o = {}
    if n1 != ABSENT:
        o["a"] = value(n1)
    if n2 != ABSENT:
        o["b"] = value(n2)
    return o


def sample_from_symbol(sym):
    """sym: 'name' (single field a) | ['2', n1, n2] (two fields) | ['G', graph spec] | ['J', json]"""
    if isinstance(sym, str):
        return obj1(sym)
    tag = sym[0]
    if tag == "2":
        return obj2(sym[1], sym[2])
    if tag == "J":
        return copy.deepcopy(sym[1])
    if tag == "K":      # ['K', key, value name]: single field under a key that needs renaming
        return {} if sym[2] == ABSENT else {sym[1]: value(sym[2])}
    if tag == "G":
        return graph_object(sym[1])
    if tag == "S":      # ['S', grammar class, string]: single field a holding a string of the C09 grammar
        return {"a": sym[2]}
    raise ValueError(sym)


def symbol_name(sym):
    if isinstance(sym, str):
        return sym
    if sym[0] == "2":
        return f"2({sym[1]},{sym[2]})"
    if sym[0] == "G":
        return "G" + graph_name(sym[1])
    if sym[0] == "K":
        return f"K({sym[1]}:{sym[2]})"
    if sym[0] == "S":
        return string_form(sym[1], sym[2])
    return "J" + repr(sym[1])


def histories(symbols, max_len, min_len=1):
    for n in range(min_len, max_len + 1):
        for h in itertools.product(symbols, repeat=n):
            yield list(h)


# --- graph-shaped inputs ------------------------------------------------------------------------
PAYLOADS = {
    "P1": ("x", "y", "z"),
    "P2": ("x", "y", "z", "w"),
    "P3": ("p",),
    "P4": ("q",),
    # same key sets with other value kinds (models that merge but whose field types differ)
    "P1f": ("x", "y", "z"),
    "P3f": ("p",),
    "P3s": ("p",),
    # payloads whose values need their own imports (List / Dict / Optional-free Any)
    "P3l": ("p",),
    "P4d": ("q",),
    # a string value containing U+2028 (a line separator for str.splitlines, not for the tokenizer)
    "P3u": ("p",),
}
PAYLOAD_VALUE = {"P1f": 1.5, "P3f": 1.5, "P3s": "s", "P3l": [1], "P4d": {"k1": 1}, "P3u": "a\u2028b"}
EDGE_KEYS = ("c", "d")
WRAPPERS = ("plain", "list", "nullable", "dict")


def graph_object(spec):
    """spec: [payload, [[edge_key, wrapper, childspec], ...]] -> JSON object"""
    payload, edges = spec
    o = {k: copy.deepcopy(PAYLOAD_VALUE.get(payload, 1)) for k in PAYLOADS[payload]}
    for key, wrap, child in edges:
        c = graph_object(child)
        if wrap == "plain":
            o[key] = c
        elif wrap == "list":
            o[key] = [c]
        elif wrap == "nullable":
            o[key] = c
        elif wrap == "dict":
            o[key] = {"k1": c, "k2": copy.deepcopy(c)}
    return o


def graph_name(spec):
    payload, edges = spec
    if not edges:
        return payload
    return payload + "(" + ",".join(f"{k}{w[0]}:{graph_name(c)}" for k, w, c in edges) + ")"


def graph_size(spec):
    return 1 + sum(graph_size(c) for _, _, c in spec[1])


def graph_depth(spec):
    return 1 + max((graph_depth(c) for _, _, c in spec[1]), default=0)


def graph_specs(max_nodes, max_depth=3, payloads=("P1", "P2", "P3", "P4"), wrappers=WRAPPERS):
    """all trees with <= max_nodes nodes, depth <= max_depth; children of a node use distinct edge
    keys in fixed order (c before d)."""
    def trees(n, d):
        # all trees with exactly n nodes and depth <= d
        if n < 1 or d < 1:
            return
        for p in payloads:
            if n == 1:
                yield [p, []]
                continue
            if d == 1:
                continue
            # one child under c
            for w in wrappers:
                for ch in trees(n - 1, d - 1):
                    yield [p, [["c", w, ch]]]
            # two children under c and d
            for n1 in range(1, n - 1):
                n2 = n - 1 - n1
                for w1 in wrappers:
                    for c1 in trees(n1, d - 1):
                        for w2 in wrappers:
                            for c2 in trees(n2, d - 1):
                                yield [p, [["c", w1, c1], ["d", w2, c2]]]
    for n in range(1, max_nodes + 1):
        yield from trees(n, max_depth)


def graph_samples(spec):
    """sample list inducing the graph; a 'nullable' edge adds a second sample where that edge is null"""
    base = graph_object(spec)
    out = [base]

    def nullify(o, spec):
        payload, edges = spec
        changed = False
        for key, wrap, child in edges:
            if wrap == "nullable":
                o[key] = None
                changed = True
            elif wrap == "plain":
                changed |= nullify(o[key], child)
            elif wrap == "list":
                changed |= nullify(o[key][0], child)
            elif wrap == "dict":
                changed |= nullify(o[key]["k1"], child)
        return changed
    second = copy.deepcopy(base)
    if nullify(second, spec):
        out.append(second)
    return out


# --- key strings --------------------------------------------------------------------------------
KEY_SYMBOLS_REALISTIC = ["a", "B", "1", "_", "-", " ", ".", "é", "я"]
KEY_SYMBOLS_WILD = ['"', "'", "\\", "日"]
import keyword as _kw
KEYWORD_CASES = sorted({f(k) for k in _kw.kwlist for f in (str.lower, str.capitalize, str.upper)} |
                       {f(k) for k in ("list", "dict", "type", "id", "object", "print", "any", "all", "str", "int", "float", "bool")
                        for f in (str.lower, str.capitalize, str.upper)})
KEY_WORDS = ["class", "list", "List", "Optional", "Any", "Dict", "Union", "Literal", "field", "Field", "BaseModel",
             "dataclass", "attr", "datetime", "date", "type", "id", "pk", "self", "None", "schema", "SQLModel",
             "IntString", "ClassType", "convert_strings", "optional", "Root", "IsoDateString", "iso_date_string", "IsoTimeStrings", "iso_datetime_string"]


def key_strings(symbols, max_len):
    for n in range(1, max_len + 1):
        for t in itertools.product(symbols, repeat=n):
            yield "".join(t)


def word_forms(words, symbols):
    for w in words:
        yield w
        for s in symbols:
            yield s + w
            yield w + s


def fold_key(k):
    """the folding of the C11 statement: transliterate, drop non-alphanumerics, lower-case"""
    from unidecode import unidecode
    import re
    return re.sub(r"[^0-9a-zA-Z]", "", unidecode(k)).lower()


def realistic_key(k):
    """C03 domain: at least one ASCII-transliterable letter, not starting with a digit or underscore"""
    import re
    from unidecode import unidecode
    if not k or k[0] == "_" or k[0].isdigit():
        return False
    # realistic styles (snake, camel, kebab, Pascal, inner digits, words, cased non-ASCII letters):
    # a key starts with a letter and ends with a letter or digit; separators only occur inside
    if not (k[0].isalpha() and k[-1].isalnum()):
        return False
    return bool(re.search(r"[A-Za-z]", unidecode(k)))


def sibling_graph_specs(sib_payloads=("P1", "P2"), sib_wrappers=("plain", "list"),
                        child_payloads=("P3", "P3f", "P3s", "P4", "P1"), child_wrappers=("plain", "list"),
                        root_payloads=("P4",)):
    """two-level family: a root with two sibling objects (keys c, d) that each hold one child under the
    same key c. Siblings are similar enough to merge; their children share key sets but may differ in
    value kinds - the shape where pointer retargeting and union de-duplication interact."""
    for rp in root_payloads:
        for s1 in sib_payloads:
            for w1 in sib_wrappers:
                for c1 in child_payloads:
                    for cw1 in child_wrappers:
                        for s2 in sib_payloads:
                            for w2 in sib_wrappers:
                                for c2 in child_payloads:
                                    for cw2 in child_wrappers:
                                        yield [rp, [["c", w1, [s1, [["c", cw1, [c1, []]]]]],
                                                    ["d", w2, [s2, [["c", cw2, [c2, []]]]]]]]


def varied_merge_samples(v0, v1, v2, rows_first=False):
    """one root object with a `head` object and a list `rows` of objects of the same shape (they merge): the field f is
    required with value v0 in head, and present with v1 / absent / present with v2 in the rows"""
    def obj(v):
        o = {"p": 1, "q": "x", "r": 2.5, "s": True}
        if v is not ABSENT:
            o["f"] = value(v)
        return o
    head = obj(v0)
    rows = [obj(v1), obj(ABSENT), obj(v2)]
    return [{"rows": rows, "head": head}] if rows_first else [{"head": head, "rows": rows}]


def varied_merge_chain(vs, rows_at):
    """one root object whose fields m0..m{n-1} are objects of one shape (they all merge into one class); member i holds the field
    f with value vs[i], except member rows_at, which is a list of two such objects: one with vs[rows_at], one without f.  The
    merged field therefore sees plain X, other kinds and Optional[X] in every relative order (merge_models folds several members,
    and the order of the union members follows the order of the members)"""
    def obj(v):
        o = {"p": 1, "q": "x", "r": 2.5, "s": True}
        if v is not ABSENT:
            o["f"] = value(v)
        return o
    root = {}
    for i, v in enumerate(vs):
        root[f"m{i}"] = [obj(v), obj(ABSENT)] if i == rows_at else obj(v)
    return [root]


VARIED_CHAIN_ATOMS = ["int", "lit_a", "float", "L(int)", "O(k:int)"]
VARIED_ATOMS = ["int", "float", "true", "lit_a", "s_int", "null", "L(int)", "elist", "O(k:int)"]


# --- reference classification of strings (independent of the library's parsers) ---------------------------------------------
_FORMS = None


def string_form(cls, s):
    """'canon:<kind>' for the canonical spelling of an int / float / bool / ISO date / time / datetime (the spellings every
    framework's own parser agrees on), else 'form:<grammar class>' - the shape vocabulary for string-valued findings"""
    global _FORMS
    import datetime
    import re
    if _FORMS is None:
        t = r"(\d{2}):(\d{2})(?::(\d{2})(?:\.\d{1,6})?)?(Z|[+-](\d{2}):(\d{2}))?"
        _FORMS = {
            "int": re.compile(r"-?(0|[1-9][0-9]*)"),
            "float": re.compile(r"-?(0|[1-9][0-9]*)\.[0-9]+"),
            "date": re.compile(r"(\d{4})-(\d{2})-(\d{2})"),
            "time": re.compile(t),
            "datetime": re.compile(r"(\d{4})-(\d{2})-(\d{2})T" + t),
        }
    if not s.isascii():
        return "form:" + cls
    if _FORMS["int"].fullmatch(s) and len(s) < 18:
        return "canon:int"
    if _FORMS["float"].fullmatch(s) and len(s) < 17:
        return "canon:float"
    if s in ("true", "false", "True", "False"):
        return "canon:bool"

    def time_ok(g):
        h, m, sec, tz, th, tm = g
        return int(h) < 24 and int(m) < 60 and (sec is None or int(sec) < 60) and (th is None or (int(th) < 15 and int(tm) < 60))

    def date_ok(g):
        try:
            datetime.date(int(g[0]), int(g[1]), int(g[2]))
            return True
        except ValueError:
            return False
    m = _FORMS["date"].fullmatch(s)
    if m and date_ok(m.groups()):
        return "canon:date"
    m = _FORMS["time"].fullmatch(s)
    if m and time_ok(m.groups()):
        return "canon:time"
    m = _FORMS["datetime"].fullmatch(s)
    if m and date_ok(m.groups()[:3]) and time_ok(m.groups()[3:]):
        return "canon:datetime"
    return "form:" + cls
