"""Reference semantics over the library's type IR (DESIGN.md section 2.2): kinds, canonical forms,
admits, routing walk, normal-form predicates.  Written from the documentation / property statements;
it inspects IR *objects* produced by the real code but never calls the code's own simplification."""
from inspect import isclass

from . import pipeline  # noqa: F401  (sets sys.path)
from json_to_models.dynamic_typing import (
    DDict, DList, DOptional, DTuple, DUnion, ModelMeta, ModelPtr, Null, StringLiteral, StringSerializable, Unknown,
)

PLAIN = {int: "int", float: "float", bool: "bool", str: "str"}


def kind(t):
    if t is Unknown:
        return "any"
    if t is Null:
        return "null"
    if isclass(t):
        if t in PLAIN:
            return PLAIN[t]
        if issubclass(t, StringSerializable):
            return "pseudo"
        return "class"
    if isinstance(t, StringLiteral):
        return "lit"
    if isinstance(t, DOptional):
        return "opt"
    if isinstance(t, DUnion):
        return "union"
    if isinstance(t, DList):
        return "list"
    if isinstance(t, DDict):
        return "dict"
    if isinstance(t, DTuple):
        return "tuple"
    if isinstance(t, ModelPtr):
        return "ptr"
    if isinstance(t, ModelMeta):
        return "meta"
    if isinstance(t, dict):
        return "model"
    return "other:" + type(t).__name__


def fields_of(t):
    """field dict of a model-like IR node (raw dict / ModelPtr / ModelMeta)"""
    k = kind(t)
    if k == "model":
        return t
    if k == "ptr":
        return t.type.type
    if k == "meta":
        return t.type
    raise TypeError(k)


def model_id(t):
    k = kind(t)
    if k == "ptr":
        return t.type.index
    if k == "meta":
        return t.index
    return "raw%x" % id(t)


# ----------------------------------------------------------------------------------------------
# canonical forms
# ----------------------------------------------------------------------------------------------

def _srt(items):
    return tuple(sorted(items, key=repr))


def canon(t, labels=None, depth=0):
    """Canonical, order-insensitive form. ModelPtr -> ('ptr', label) when labels is given, else a
    label-free key ('ptr', sorted field names).  Raw dict models are unfolded structurally."""
    k = kind(t)
    if k in ("any", "null", "int", "float", "bool", "str"):
        return (k,)
    if k == "pseudo":
        return ("ps", t.__name__)
    if k == "class":
        return ("class", t.__name__)
    if k == "lit":
        return ("lit_overflow",) if t.overflowed else ("lit", tuple(sorted(t.literals)))
    if k in ("opt", "list", "dict"):
        return (k, canon(t.type, labels, depth))
    if k == "union":
        return ("union", _srt(canon(m, labels, depth) for m in t.types))
    if k == "tuple":
        return ("tuple", tuple(canon(m, labels, depth) for m in t.types))
    if k == "model":
        return ("model", _srt((name, canon(v, labels, depth)) for name, v in t.items()))
    if k in ("ptr", "meta"):
        mid = model_id(t)
        if labels is not None and mid in labels:
            return ("ptr", labels[mid])
        names = tuple(sorted(fields_of(t).keys()))
        if depth > 0:
            return ("ptr", names, _srt((n, canon(v, None, depth - 1)) for n, v in fields_of(t).items()))
        return ("ptr", names)
    return (k,)


def _ptrs_in(t, out):
    """ModelPtr nodes inside a type, in an order that depends only on label-free keys."""
    k = kind(t)
    if k in ("opt", "list", "dict"):
        _ptrs_in(t.type, out)
    elif k in ("union", "tuple"):
        members = list(t.types)
        if k == "union":
            members.sort(key=lambda m: repr(canon(m, None, 2)))
        for m in members:
            _ptrs_in(m, out)
    elif k == "ptr":
        out.append(t)
    elif k == "model":
        for name in sorted(t):
            _ptrs_in(t[name], out)


def canon_graph(roots):
    """Canonical model graph from root ModelPtr(s): models labelled in BFS order along sorted field
    names; each model = sorted tuple of (field, canonical type with labels). Field order, union
    order, class names and index strings vanish; nothing else does."""
    labels, order, queue = {}, [], []
    for r in roots:
        if model_id(r) not in labels:
            labels[model_id(r)] = len(labels)
            order.append(r)
            queue.append(r)
    while queue:
        m = queue.pop(0)
        f = fields_of(m)
        for name in sorted(f):
            ptrs = []
            _ptrs_in(f[name], ptrs)
            for p in ptrs:
                if model_id(p) not in labels:
                    labels[model_id(p)] = len(labels)
                    order.append(p)
                    queue.append(p)
    return tuple(
        _srt((name, canon(v, labels)) for name, v in fields_of(m).items())
        for m in order
    )


def canon_meta(meta):
    """canonical form of raw generator output (dict models unfolded structurally)"""
    return canon(meta)


# ----------------------------------------------------------------------------------------------
# admits
# ----------------------------------------------------------------------------------------------

def parses(T, s):
    """does pseudo-type T accept string s.  ValueError = reject (documented); any other exception
    propagates to the caller (judged by C09)."""
    try:
        T.to_internal_value(s)
        return True
    except ValueError:
        return False


def admits(t, v, _depth=0):
    k = kind(t)
    if k == "any":
        return True
    if k == "null":
        return v is None
    if k == "bool":
        return isinstance(v, bool)
    if k == "int":
        return isinstance(v, int) and not isinstance(v, bool)
    if k == "float":
        return isinstance(v, float) or (isinstance(v, int) and not isinstance(v, bool))
    if k == "str":
        return isinstance(v, str)
    if k == "pseudo":
        if not isinstance(v, str):
            return False
        try:
            return parses(t, v)
        except Exception:
            return False
    if k == "lit":
        if not isinstance(v, str):
            return False
        return True if t.overflowed else v in t.literals
    if k == "opt":
        return v is None or admits(t.type, v)
    if k == "union":
        return any(admits(m, v) for m in t.types)
    if k == "list":
        return isinstance(v, list) and all(admits(t.type, e) for e in v)
    if k == "dict":
        return isinstance(v, dict) and all(admits(t.type, e) for e in v.values())
    if k in ("model", "ptr", "meta"):
        if not isinstance(v, dict):
            return False
        f = fields_of(t)
        for key, val in v.items():
            if key not in f or not admits(f[key], val):
                return False
        for name, ft in f.items():
            if name not in v and kind(ft) != "opt":
                return False
        return True
    return False


def why_not(t, v, path="$"):
    """first reason admits(t, v) fails, as (clause, path, type kind, value kind)"""
    k = kind(t)
    if admits(t, v):
        return None
    if k in ("model", "ptr", "meta") and isinstance(v, dict):
        f = fields_of(t)
        for key, val in v.items():
            if key not in f:
                return ("key_not_a_field", f"{path}.{key}", k, jkind(val))
            r = why_not(f[key], val, f"{path}.{key}")
            if r:
                return r
        for name, ft in f.items():
            if name not in v and kind(ft) != "opt":
                return ("required_field_absent", f"{path}.{name}", kind(ft), "absent")
    if k == "opt":
        return why_not(t.type, v, path)
    if k == "list" and isinstance(v, list):
        for i, e in enumerate(v):
            r = why_not(t.type, e, f"{path}[]")
            if r:
                return r
    if k == "dict" and isinstance(v, dict):
        for e in v.values():
            r = why_not(t.type, e, f"{path}{{}}")
            if r:
                return r
    if k == "union":
        same = [m for m in t.types if jkind_of_type(m) == jkind(v)]
        if len(same) == 1:
            r = why_not(same[0], v, path)
            if r:
                return r
    return ("value_not_admitted", path, type_shape(t), jkind(v))


def jkind(v):
    if v is None:
        return "null"
    if isinstance(v, bool):
        return "bool"
    if isinstance(v, int):
        return "int"
    if isinstance(v, float):
        return "float"
    if isinstance(v, str):
        return "str"
    if isinstance(v, list):
        return "list"
    if isinstance(v, dict):
        return "object"
    return type(v).__name__


def jkind_of_type(t):
    k = kind(t)
    return {"pseudo": "str", "lit": "str", "model": "object", "ptr": "object", "meta": "object",
            "dict": "object"}.get(k, k)


def type_shape(t, depth=2):
    """short label-free description of a type for signatures"""
    k = kind(t)
    if k == "pseudo":
        return t.__name__
    if k in ("opt", "list", "dict") and depth:
        return f"{k}[{type_shape(t.type, depth - 1)}]"
    if k == "union" and depth:
        return "union[" + ",".join(sorted(type_shape(m, depth - 1) for m in t.types)) + "]"
    return k


# ----------------------------------------------------------------------------------------------
# routing walk (C01 / C02)
# ----------------------------------------------------------------------------------------------

class Walk:
    """Pushes samples down a type graph; records per position the values routed there and per model
    the objects routed to it."""

    def __init__(self):
        self.at = {}       # position -> list of values
        self.types = {}    # position -> type object
        self.objects = {}  # model id -> list of dicts
        self.models = {}   # model id -> model node
        self.unroutable = 0
        self.sole = {}     # position -> parallel to at[position]: did the value arrive here without passing a union that offered another member

    def push(self, t, v, pos, sole=True):
        self.at.setdefault(pos, []).append(v)
        self.sole.setdefault(pos, []).append(sole)
        self.types[pos] = t
        k = kind(t)
        if k == "opt":
            if v is not None:
                self.push(t.type, v, pos + ("O",), sole)
            else:
                self.types.setdefault(pos + ("O",), t.type)
                self.at.setdefault(pos + ("O",), [])
        elif k == "union":
            targets = [i for i, m in enumerate(t.types) if admits(m, v)]
            if not targets:
                self.unroutable += 1
                targets = [i for i, m in enumerate(t.types) if jkind_of_type(m) == jkind(v)]
            for i, m in enumerate(t.types):
                p = pos + ("U%d" % i,)
                self.types.setdefault(p, m)
                self.at.setdefault(p, [])
            for i in targets:
                self.push(t.types[i], v, pos + ("U%d" % i,), sole and len(targets) == 1)
        elif k in ("list", "dict"):
            p = pos + ("L" if k == "list" else "D",)
            self.types.setdefault(p, t.type)
            self.at.setdefault(p, [])
            if k == "list" and isinstance(v, list):
                for e in v:
                    self.push(t.type, e, p, sole)
            elif k == "dict" and isinstance(v, dict):
                for e in v.values():
                    self.push(t.type, e, p, sole)
            else:
                self.unroutable += 1
        elif k in ("model", "ptr", "meta"):
            if not isinstance(v, dict):
                self.unroutable += 1
                return
            mid = model_id(t)
            first = mid not in self.models
            self.models[mid] = t
            self.objects.setdefault(mid, []).append(v)
            f = fields_of(t)
            for name, ft in f.items():
                p = (mid, name)
                self.types.setdefault(p, ft)
                self.at.setdefault(p, [])
                if name in v:
                    self.push(ft, v[name], p, sole)
            for key in v:
                if key not in f:
                    self.unroutable += 1


def witness(t, v):
    """does v inhabit t in the sense of C02 (documented widenings respected)"""
    k = kind(t)
    if k == "float":
        return isinstance(v, float)
    if k == "any":
        return True
    return admits(t, v)


# ----------------------------------------------------------------------------------------------
# normal form predicates (C08)
# ----------------------------------------------------------------------------------------------

def _stringish(t):
    k = kind(t)
    return k in ("lit", "pseudo")


def nf_violations(t, path="$", out=None, seen=None):
    """list of (clause, path) for every normal-form rule of C08 broken inside t"""
    out = [] if out is None else out
    seen = set() if seen is None else seen
    k = kind(t)
    if k == "union":
        ms = list(t.types)
        kinds = [kind(m) for m in ms]
        if len(ms) == 0:
            out.append(("union_empty", path))
        elif len(ms) == 1:
            out.append(("union_single_member", path))
        if "union" in kinds:
            out.append(("union_not_flat", path))
        if "null" in kinds:
            out.append(("union_null_member", path))
        if "opt" in kinds:
            out.append(("union_optional_member", path))
        # pointers are the same member iff they point to the same model (two distinct models of equal shape are two members)
        cs = [("ptr", model_id(m)) if kind(m) == "ptr" else repr(canon(m, None, 1)) for m in ms]
        if len(set(cs)) != len(cs):
            out.append(("union_duplicate_member", path))
        if "int" in kinds and "float" in kinds:
            out.append(("union_int_and_float", path))
        strlike = "str" in kinds or any(kind(m) == "lit" and (m.overflowed or not m.literals) for m in ms)
        if strlike and any(_stringish(m) and not (kind(m) == "lit" and (m.overflowed or not m.literals)) for m in ms):
            out.append(("union_str_with_literal_or_pseudo", path))
        if "str" in kinds and any(kind(m) == "lit" for m in ms):
            if ("union_str_with_literal_or_pseudo", path) not in out:
                out.append(("union_str_with_literal_or_pseudo", path))
        for i, m in enumerate(ms):
            nf_violations(m, f"{path}|{kinds[i]}", out, seen)
    elif k == "opt":
        if kind(t.type) == "opt":
            out.append(("optional_in_optional", path))
        nf_violations(t.type, path + "?", out, seen)
    elif k in ("list", "dict"):
        nf_violations(t.type, path + ("[]" if k == "list" else "{}"), out, seen)
    elif k == "tuple":
        for m in t.types:
            nf_violations(m, path + "()", out, seen)
    elif k == "model":
        for name, v in t.items():
            nf_violations(v, f"{path}.{name}", out, seen)
    elif k in ("ptr", "meta"):
        mid = model_id(t)
        if mid not in seen:
            seen.add(mid)
            for name, v in fields_of(t).items():
                nf_violations(v, f"{path}.{name}", out, seen)
    return out
