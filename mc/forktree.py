"""E5 - fork-tree history explorer.

A node of the history tree is a *process*: for every enabled event the current process forks; the child
performs the event on exactly the state its parent left behind (nothing is copied or reconstructed
by the checker - the fork is the checkpoint), reports what it observed, and recurses.  Top-level
events run concurrently; deeper levels sequentially inside their subtree."""
import json
import os
import sys
import tempfile
import traceback


def explore(events, enabled, perform, max_depth, out_dir, nproc=16):
    """events: list of names. enabled(history) -> list of event names. perform(event, history) -> jsonable
    observation. Writes one JSON line per node into out_dir/<top>.jsonl. Returns number of files."""
    top = enabled([])

    def subtree(history, depth, fh):
        for ev in enabled(history):
            pid = os.fork()
            if pid == 0:
                code = 0
                try:
                    obs = perform(ev, history)
                    h2 = history + [ev]
                    fh.write(json.dumps({"h": h2, "obs": obs}) + "\n")
                    fh.flush()
                    if depth + 1 < max_depth:
                        subtree(h2, depth + 1, fh)
                except BaseException:
                    fh.write(json.dumps({"h": history + [ev], "harness_error": traceback.format_exc()}) + "\n")
                    fh.flush()
                    code = 3
                finally:
                    os._exit(code)
            _, status = os.waitpid(pid, 0)
            if status != 0:
                fh.write(json.dumps({"h": history + [ev], "harness_error": f"child exit status {status}"}) + "\n")
                fh.flush()

    running = {}
    pending = list(top)
    while pending or running:
        while pending and len(running) < nproc:
            ev = pending.pop(0)
            pid = os.fork()
            if pid == 0:
                code = 0
                try:
                    with open(os.path.join(out_dir, f"{ev}.jsonl"), "w") as fh:
                        obs = perform(ev, [])
                        fh.write(json.dumps({"h": [ev], "obs": obs}) + "\n")
                        fh.flush()
                        if max_depth > 1:
                            subtree([ev], 1, fh)
                except BaseException:
                    with open(os.path.join(out_dir, f"{ev}.err"), "w") as fe:
                        fe.write(traceback.format_exc())
                    code = 3
                finally:
                    os._exit(code)
            running[pid] = ev
        pid, status = os.wait()
        ev = running.pop(pid)
        if status != 0:
            with open(os.path.join(out_dir, f"{ev}.err"), "a") as fe:
                fe.write(f"top-level child for {ev} exited with status {status}\n")
    return len(top)


def read_results(out_dir):
    nodes, errors = [], []
    for fn in sorted(os.listdir(out_dir)):
        p = os.path.join(out_dir, fn)
        if fn.endswith(".err"):
            errors.append(open(p).read())
        elif fn.endswith(".jsonl"):
            with open(p) as f:
                for line in f:
                    d = json.loads(line)
                    if "harness_error" in d:
                        errors.append(d["harness_error"])
                    else:
                        nodes.append(d)
    return nodes, errors
