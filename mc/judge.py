"""Clause evaluators shared by several properties. Each returns plain tuples; the property modules
turn them into violation records with their own signatures."""
import typing

from . import core, ir, pipeline, program


def is_tree(reg):
    """each non-root model is referenced from exactly one class, and nothing is recursive"""
    for m in reg.models:
        ptrs = [p for p in m.pointers if p.parent is not None]
        roots = [p for p in m.pointers if p.parent is None]
        if roots and ptrs:
            return False
        parents = {p.parent.index for p in ptrs}
        if len(parents) > 1:
            return False
        if m.index in parents:
            return False
    # no cycles
    for m in reg.models:
        seen, cur = set(), m
        while True:
            ptrs = [p for p in cur.pointers if p.parent is not None]
            if not ptrs:
                break
            cur = ptrs[0].parent
            if cur.index in seen or cur is m:
                return False
            seen.add(cur.index)
    return True


def n_roots(reg):
    return sum(1 for m in reg.models if any(p.parent is None for p in m.pointers))


def ir_accepts(t, samples):
    """[(clause, path, type_shape, value kind)] for samples not admitted by IR type/model t"""
    out = []
    for i, s in enumerate(samples):
        r = ir.why_not(t, s)
        if r:
            out.append(r + (i,))
    return out


class Emitted:
    """text + loaded program + model->class mapping for one (registry, framework, layout, options)"""
    pass


def emit(b, fw, layout, **genkw):
    """render with the real generator; returns text (raises what the library raises)"""
    return pipeline.render(b.reg, fw, layout, **genkw)


def code_accepts(prog, b, fw, samples, walk=None):
    """C01 (c)+(d) on a loaded program. Returns list of (clause, detail)."""
    out = []
    mapping, problems = program.model_classes(prog, b.reg)
    if problems:
        out.append(("model_class_missing_or_ambiguous", str(problems)))
        return out
    classes = {cls: qual for idx, (qual, cls) in mapping.items()}
    cls_model = {cls: idx for idx, (qual, cls) in mapping.items()}
    root_idx = b.root.type.index
    root_cls = mapping[root_idx][1]
    if walk is None:
        walk = ir.Walk()
        for s in samples:
            walk.push(b.root, s, ("root",))

    def allow_drop(cls, key):
        if fw not in ("pydantic", "sqlmodel"):
            return False
        vals = walk.at.get((cls_model[cls], key))
        return vals is not None and all(v is None for v in vals)

    if fw in ("pydantic", "sqlmodel"):
        try:
            program.update_forward_refs(prog, mapping)
        except Exception as e:
            out.append(("update_forward_refs_fails", f"{type(e).__name__}: {e}"[:300]))
            return out
    for i, s in enumerate(samples):
        r = program.object_accepted(root_cls, s, prog, fw, classes, allow_drop=allow_drop)
        if r:
            out.append((r[0], f"sample#{i} {r[1]}: {r[2]}"))
        if fw in ("pydantic", "sqlmodel"):
            try:
                root_cls.parse_obj(s)
            except Exception as e:
                msg = str(e).replace("\n", " | ")
                out.append(("parse_obj_fails", f"sample#{i}: {type(e).__name__}: {msg}"[:300]))
    return out


# ------------------------------------------------------------------------------------------------
# C03 clauses on a loaded program
# ------------------------------------------------------------------------------------------------
import ast as _ast
import importlib as _importlib
import keyword as _keyword


def _names_in_annotation(node):
    """identifier names used by an annotation AST node, looking inside quoted forward references"""
    out = set()
    for n in _ast.walk(node):
        if isinstance(n, _ast.Name):
            out.add(n.id)
        elif isinstance(n, _ast.Constant) and isinstance(n.value, str):
            try:
                sub = _ast.parse(n.value, mode="eval")
            except SyntaxError:
                continue
            for m in _ast.walk(sub):
                if isinstance(m, _ast.Name):
                    out.add(m.id)
    return out


def _ptr_models(t, out):
    k = ir.kind(t)
    if k == "ptr":
        out.add(t.type.index)
    elif k in ("opt", "list", "dict"):
        _ptr_models(t.type, out)
    elif k in ("union", "tuple"):
        for m in t.types:
            _ptr_models(m, out)
    return out


def _hint_classes(h, classes, out):
    if isinstance(h, type) and h in classes:
        out.add(h)
    for a in typing.get_args(h) or ():
        _hint_classes(a, classes, out)
    return out


def structure_clauses(prog, b, fw):
    """C03: class count, names, uniqueness, reference resolution, import shadowing.
    Returns [(clause, detail)]."""
    out = []
    defs = prog.class_defs()
    n_models = len(b.reg.models_map)
    if len(defs) != n_models:
        out.append(("class_count_differs_from_model_count", f"{len(defs)} class statements for {n_models} models: "
                    f"{['.'.join(q) for q, _ in defs]} vs {[m.name for m in b.reg.models]}"))
    # names
    scopes = {}
    for q, node in defs:
        scopes.setdefault(q[:-1], []).append(q[-1])
        if not q[-1].isidentifier() or _keyword.iskeyword(q[-1]):
            out.append(("class_name_not_an_identifier", q[-1]))
        fields = [st.target.id for st in node.body if isinstance(st, _ast.AnnAssign) and isinstance(st.target, _ast.Name)]
        for f in fields:
            if not f.isidentifier() or _keyword.iskeyword(f):
                out.append(("field_name_not_an_identifier", f))
        if len(set(fields)) != len(fields):
            out.append(("duplicate_field_name", f"{'.'.join(q)}: {fields}"))
        nested = [st.name for st in node.body if isinstance(st, _ast.ClassDef)]
        clash = set(fields) & set(nested)
        if clash:
            out.append(("field_and_nested_class_share_name", f"{'.'.join(q)}: {sorted(clash)}"))
    for scope, names in scopes.items():
        if len(set(names)) != len(names):
            out.append(("duplicate_class_name", f"scope {'.'.join(scope) or '<module>'}: {names}"))
    if out:
        return out
    mapping, problems = program.model_classes(prog, b.reg)
    if problems:
        out.append(("model_without_unique_class", str(problems)))
        return out
    classes = {cls: qual for idx, (qual, cls) in mapping.items()}
    by_model = {idx: cls for idx, (qual, cls) in mapping.items()}
    imported = prog.imported_names()
    originals = {}
    for name, (module, attr) in imported.items():
        try:
            m = _importlib.import_module(module)
            originals[name] = getattr(m, attr) if attr else _importlib.import_module(module.split(".")[0])
        except Exception as e:
            out.append(("import_unresolvable", f"{module}.{attr}: {e}"))
    node_by_qual = dict(defs)
    for idx, (qual, cls) in mapping.items():
        model = b.reg.models_map[idx]
        try:
            hints = prog.hints(qual)
        except Exception as e:
            out.append(("annotation_unresolvable", f"{'.'.join(qual)}: {type(e).__name__}: {e}"))
            continue
        table = program.field_table(cls, fw)
        names_by_key = {f.key: f.name for f in table}
        for key, t in model.type.items():
            want = {by_model[i] for i in _ptr_models(t, set()) if i in by_model}
            fname = names_by_key.get(key)
            if fname is None:
                continue  # key/alias correspondence is C04/C11's subject
            h = hints.get(fname)
            got = _hint_classes(h, classes, set())
            if got != want:
                out.append(("reference_resolves_to_wrong_class", f"{'.'.join(qual)}.{fname}: annotation refers to "
                            f"{sorted(c.__qualname__ for c in got)}, model refers to {sorted(c.__qualname__ for c in want)}"))
        # import shadowing, semantically: every imported name used by this class's annotations/defaults/
        # decorators must still evaluate to the imported object in this class's scope
        node = node_by_qual[qual]
        # annotations are evaluated lazily against the final class namespace (what get_type_hints does);
        # decorators and bases are evaluated in the enclosing scope. Names used by default values are
        # evaluated mid-body and are judged by exec itself (and by C04's default clauses), not here.
        used_cls = set()
        for st in node.body:
            if isinstance(st, _ast.AnnAssign):
                used_cls |= _names_in_annotation(st.annotation)
        used_outer = set()
        for d in node.decorator_list:
            used_outer |= {n.id for n in _ast.walk(d) if isinstance(n, _ast.Name)}
        for base in node.bases:
            used_outer |= {n.id for n in _ast.walk(base) if isinstance(n, _ast.Name)}
        scope = dict(prog.mod.__dict__)
        scope.update(prog.localns(qual))
        scope.update({k: v for k, v in vars(cls).items() if not k.startswith("__")})
        outer = dict(prog.mod.__dict__)
        if len(qual) > 1:
            outer.update(prog.localns(qual[:-1]))
        for name in sorted(used_cls & set(originals)):
            if scope.get(name) is not originals[name]:
                out.append(("imported_name_shadowed", f"{name} in scope of {'.'.join(qual)} is {scope.get(name)!r}"))
        for name in sorted(used_outer & set(originals)):
            if outer.get(name) is not originals[name]:
                out.append(("imported_name_shadowed", f"{name} in the scope enclosing {'.'.join(qual)} is {outer.get(name)!r}"))
    return out


# ------------------------------------------------------------------------------------------------
# C04: independent rendering of the IR as typing objects, compared with the emitted classes
# ------------------------------------------------------------------------------------------------
from json_to_models.models.base import prepare_label as _lib_prepare_label  # name oracle only when the key is not recoverable


def denote(t, fw, by_model, max_literals=10):
    """typing object the IR type stands for under the framework's documented style"""
    k = ir.kind(t)
    if k == "any":
        return typing.Any
    if k == "null":
        return type(None)
    if k in ("int", "float", "bool", "str"):
        return {"int": int, "float": float, "bool": bool, "str": str}[k]
    if k == "pseudo":
        return t.actual_type if fw in ("pydantic", "sqlmodel") else t
    if k == "lit":
        if fw == "attrs" or t.overflowed or not t.literals:
            return str
        if max_literals is not None and not (len(t.literals) < max_literals):
            return str
        return typing.Literal[tuple(sorted(t.literals))]
    if k == "opt":
        return typing.Optional[denote(t.type, fw, by_model, max_literals)]
    if k == "list":
        return typing.List[denote(t.type, fw, by_model, max_literals)]
    if k == "dict":
        return typing.Dict[str, denote(t.type, fw, by_model, max_literals)]
    if k == "union":
        return typing.Union[tuple(denote(m, fw, by_model, max_literals) for m in t.types)]
    if k == "ptr":
        return by_model[t.type.index]
    raise ValueError(f"cannot denote {k}")


def denotation_clauses(prog, b, fw, max_literals=10, meta_on=False, convert_unicode=True):
    """C04 clauses on a loaded program. Returns [(clause, detail)]."""
    out = []
    mapping, problems = program.model_classes(prog, b.reg)
    if problems:
        return [("model_without_unique_class", str(problems))]
    by_model = {idx: cls for idx, (qual, cls) in mapping.items()}
    for idx, (qual, cls) in mapping.items():
        model = b.reg.models_map[idx]
        cname = ".".join(qual)
        try:
            hints = prog.hints(qual)
        except Exception as e:
            out.append(("annotation_unresolvable", f"{cname}: {type(e).__name__}: {e}"))
            continue
        table = program.field_table(cls, fw)
        keys = dict(model.type)
        if fw in ("pydantic", "sqlmodel"):
            keys = {k: v for k, v in keys.items() if ir.kind(v) not in ("any", "null")}
        recoverable = fw in ("pydantic", "sqlmodel") or (meta_on and fw in ("attrs", "dataclasses"))
        if recoverable:
            got = {}
            for f in table:
                got.setdefault(f.key, []).append(f)
        else:
            # key not recoverable from the class by design: map keys to fields through the sanitised name
            exp = {}
            for key in keys:
                nm = key if (fw == "sqlmodel" and key in ("id", "pk")) else _lib_prepare_label(key, convert_unicode=convert_unicode, to_snake_case=True)
                exp.setdefault(nm, []).append(key)
            got = {}
            for f in table:
                for key in exp.get(f.name, [f.name]):
                    got.setdefault(key, []).append(f)
        if set(got) != set(keys) or any(len(v) != 1 for v in got.values()) or len(table) != len(keys):
            out.append(("fields_do_not_match_model_keys", f"{cname}: class recovers keys {sorted(got)} ({len(table)} fields), "
                        f"model has {sorted(keys)}"))
            continue
        for key, t in keys.items():
            f = got[key][0]
            if recoverable and f.name != key and f.key != key:
                out.append(("original_key_not_recoverable", f"{cname}.{f.name}: recovered {f.key!r}, key {key!r}"))
            want = denote(t, fw, by_model, max_literals)
            have = hints.get(f.name, program.MISSING)
            if have is program.MISSING or have != want:
                out.append(("annotation_differs_from_model_type", f"{cname}.{f.name}: annotation {have!r}, model type denotes {want!r}"))
            if fw == "base":
                continue
            optional = ir.kind(t) == "opt"
            if f.has_default != optional:
                out.append(("default_iff_optional", f"{cname}.{f.name}: has_default={f.has_default}, optional={optional}"))
            elif optional:
                inner = ir.kind(t.type)
                if fw in ("pydantic", "sqlmodel"):
                    dv = f.factory() if f.factory else f.default
                    ok = (dv == [] and isinstance(dv, list)) if inner == "list" else \
                         (dv == {} and isinstance(dv, dict)) if inner == "dict" else dv is None
                else:
                    if inner == "list":
                        ok = f.factory is list
                    elif inner == "dict":
                        ok = f.factory is dict
                    else:
                        ok = f.factory is None and f.default is None
                if not ok:
                    out.append(("wrong_default_value", f"{cname}.{f.name}: type {ir.type_shape(t)} default={f.default!r} factory={f.factory!r}"))
    return out


def placement_clauses(prog, b, layout):
    """each class is the class emitted for exactly one model; nested: a class sits inside the class that references it"""
    out = []
    mapping, problems = program.model_classes(prog, b.reg)
    if problems:
        return [("model_without_unique_class", str(problems))]
    if layout == "nested":
        for idx, (qual, cls) in mapping.items():
            m = b.reg.models_map[idx]
            parents = {p.parent.index for p in m.pointers if p.parent is not None}
            if len(parents) == 1:
                pq = mapping[next(iter(parents))][0]
                if qual[:-1] != pq:
                    out.append(("nested_class_not_inside_referencing_class", f"{'.'.join(qual)} referenced by {'.'.join(pq)}"))
    return out
