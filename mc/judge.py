"""Clause evaluators shared by several properties. Each returns plain tuples; the property modules
turn them into violation records with their own signatures."""
import typing

from . import core, ir, pipeline, program


def is_tree(reg):
    """each non-root model is referenced from exactly one class, and nothing is recursive"""
    for m in reg.models:
        ptrs = [p for p in m.pointers if p.parent is not None]
        roots = [p for p in m.pointers if p.parent is None]
        if roots and ptrs:
            return False
        parents = {p.parent.index for p in ptrs}
        if len(parents) > 1:
            return False
        if m.index in parents:
            return False
    # no cycles
    for m in reg.models:
        seen, cur = set(), m
        while True:
            ptrs = [p for p in cur.pointers if p.parent is not None]
            if not ptrs:
                break
            cur = ptrs[0].parent
            if cur.index in seen or cur is m:
                return False
            seen.add(cur.index)
    return True


def n_roots(reg):
    return sum(1 for m in reg.models if any(p.parent is None for p in m.pointers))


def ir_accepts(t, samples):
    """[(clause, path, type_shape, value kind)] for samples not admitted by IR type/model t"""
    out = []
    for i, s in enumerate(samples):
        r = ir.why_not(t, s)
        if r:
            out.append(r + (i,))
    return out


class Emitted:
    """text + loaded program + model->class mapping for one (registry, framework, layout, options)"""
    pass


def emit(b, fw, layout, **genkw):
    """render with the real generator; returns text (raises what the library raises)"""
    return pipeline.render(b.reg, fw, layout, **genkw)


def code_accepts(prog, b, fw, samples, walk=None):
    """C01 (c)+(d) on a loaded program. Returns list of (clause, detail)."""
    out = []
    mapping, problems = program.model_classes(prog, b.reg)
    if problems:
        out.append(("model_class_missing_or_ambiguous", str(problems)))
        return out
    classes = {cls: qual for idx, (qual, cls) in mapping.items()}
    cls_model = {cls: idx for idx, (qual, cls) in mapping.items()}
    root_idx = b.root.type.index
    root_cls = mapping[root_idx][1]
    if walk is None:
        walk = ir.Walk()
        for s in samples:
            walk.push(b.root, s, ("root",))

    def allow_drop(cls, key):
        if fw not in ("pydantic", "sqlmodel"):
            return False
        vals = walk.at.get((cls_model[cls], key))
        return vals is not None and all(v is None for v in vals)

    if fw in ("pydantic", "sqlmodel"):
        try:
            program.update_forward_refs(prog, mapping)
        except Exception as e:
            out.append(("update_forward_refs_fails", f"{type(e).__name__}: {e}"[:300]))
            return out
    for i, s in enumerate(samples):
        r = program.object_accepted(root_cls, s, prog, fw, classes, allow_drop=allow_drop)
        if r:
            out.append((r[0], f"sample#{i} {r[1]}: {r[2]}"))
        if fw in ("pydantic", "sqlmodel"):
            try:
                root_cls.parse_obj(s)
            except Exception as e:
                msg = str(e).replace("\n", " | ")
                out.append(("parse_obj_fails", f"sample#{i}: {type(e).__name__}: {msg}"[:300]))
    return out
