"""E3 - owned set order.  The library is imported through a meta-path finder that parses each source file
of <REPO>/json_to_models, rewrites every set display, set comprehension and `set` / `frozenset` name
into controlled classes, and compiles with the original file names.  A controlled set remembers its
insertion order; the order it is iterated in is chosen by the explorer, once per object per mutation
epoch (a *choice point*, named by creating source line and dynamic occurrence).  Third-party
packages, dicts (insertion ordered) and ordered_set.OrderedSet are not rewritten."""
import ast
import importlib.abc
import importlib.util
import os
import sys

VNAME, FNAME = "_j2m_VSet", "_j2m_VFrozenSet"


class Controller:
    def __init__(self):
        self.reset({})

    def reset(self, deviations):
        self.deviations = dict(deviations)   # choice-point name -> permutation (tuple of indexes)
        self.counts = {}
        self.log = []                         # (name, n_elements)
        self.applied = []

    def choose(self, obj):
        n = len(obj._ord)
        site = obj._site
        k = self.counts.get(site, 0)
        self.counts[site] = k + 1
        name = f"{site}#{k}"
        self.log.append((name, n))
        perm = self.deviations.get(name)
        if perm is not None and len(perm) == n:
            self.applied.append(name)
            return [obj._ord[i] for i in perm]
        return list(obj._ord)


CTRL = Controller()
_MARK = os.sep + "json_to_models" + os.sep


def _site():
    f = sys._getframe(2)
    while f is not None:
        fn = f.f_code.co_filename
        if _MARK in fn:
            return f"{fn.split(_MARK, 1)[1]}:{f.f_lineno}"
        f = f.f_back
    return "?"


def _same(a, b):
    return a is b or (hash(a) == hash(b) and a == b)


def _dedupe(it):
    seen, out = set(), []
    for x in it:
        if x not in seen:
            seen.add(x)
            out.append(x)
    return out


def _items(other):
    """elements of another iterable in a controller-independent order"""
    if isinstance(other, (VSet, VFrozenSet)):
        return list(other._ord)
    return list(other)


class _Mixin:
    def _order(self):
        if len(self._ord) < 2:
            return list(self._ord)
        if self._choice is None:
            self._choice = CTRL.choose(self)
        return self._choice

    def __iter__(self):
        return iter(list(self._order()))

    def _new(self, items):
        return type(self)(items)

    def __or__(self, other):
        if not isinstance(other, (set, frozenset)):
            return NotImplemented
        return self._new(self._ord + [x for x in _items(other) if x not in self])

    __ror__ = __or__

    def union(self, *others):
        out = list(self._ord)
        for o in others:
            out += _items(o)
        return self._new(out)

    def __and__(self, other):
        if not isinstance(other, (set, frozenset)):
            return NotImplemented
        return self._new([x for x in self._ord if x in other])

    __rand__ = __and__

    def intersection(self, *others):
        out = list(self._ord)
        for o in others:
            o = set(_items(o))
            out = [x for x in out if x in o]
        return self._new(out)

    def __sub__(self, other):
        if not isinstance(other, (set, frozenset)):
            return NotImplemented
        return self._new([x for x in self._ord if x not in other])

    def __rsub__(self, other):
        return type(self)([x for x in _items(other) if x not in self])

    def difference(self, *others):
        out = list(self._ord)
        for o in others:
            o = set(_items(o))
            out = [x for x in out if x not in o]
        return self._new(out)

    def __xor__(self, other):
        if not isinstance(other, (set, frozenset)):
            return NotImplemented
        return self._new([x for x in self._ord if x not in other] + [x for x in _items(other) if x not in self])

    __rxor__ = __xor__

    def symmetric_difference(self, other):
        return self.__xor__(set(_items(other)))

    def copy(self):
        return self._new(self._ord)

    def __reduce__(self):
        return (type(self), (list(self._ord),))


class VSet(_Mixin, set):
    def __init__(self, it=()):
        items = _dedupe(it if not isinstance(it, (VSet, VFrozenSet)) else it._ord)
        set.__init__(self, items)
        self._ord = items
        self._choice = None
        self._site = _site()

    def _touch(self):
        self._choice = None

    def add(self, x):
        if not set.__contains__(self, x):
            set.add(self, x)
            self._ord.append(x)
            self._touch()

    def discard(self, x):
        if set.__contains__(self, x):
            set.discard(self, x)
            for i, e in enumerate(self._ord):
                if _same(e, x):
                    del self._ord[i]
                    break
            self._touch()

    def remove(self, x):
        if not set.__contains__(self, x):
            raise KeyError(x)
        self.discard(x)

    def pop(self):
        order = self._order()
        x = order[0]
        self.discard(x)
        return x

    def clear(self):
        set.clear(self)
        self._ord = []
        self._touch()

    def update(self, *others):
        for o in others:
            for x in _items(o):
                self.add(x)

    def __ior__(self, other):
        self.update(other)
        return self

    def intersection_update(self, *others):
        keep = self.intersection(*others)
        for x in list(self._ord):
            if x not in keep:
                self.discard(x)

    def __iand__(self, other):
        self.intersection_update(other)
        return self

    def difference_update(self, *others):
        for o in others:
            for x in _items(o):
                self.discard(x)

    def __isub__(self, other):
        self.difference_update(other)
        return self

    def symmetric_difference_update(self, other):
        for x in _items(other):
            if set.__contains__(self, x):
                self.discard(x)
            else:
                self.add(x)

    def __ixor__(self, other):
        self.symmetric_difference_update(other)
        return self

    __hash__ = None


class VFrozenSet(_Mixin, frozenset):
    def __new__(cls, it=()):
        items = _dedupe(it if not isinstance(it, (VSet, VFrozenSet)) else it._ord)
        self = frozenset.__new__(cls, items)
        self._ord = items
        self._choice = None
        self._site = _site()
        return self

    def __init__(self, it=()):
        pass

    def __hash__(self):
        return frozenset.__hash__(self)

    def __eq__(self, other):
        return frozenset.__eq__(self, other)


# ------------------------------------------------------------------------------------------------
# AST transformer + import hook
# ------------------------------------------------------------------------------------------------

class _Rewrite(ast.NodeTransformer):
    def __init__(self):
        self.count = 0

    def visit_Set(self, node):
        self.generic_visit(node)
        self.count += 1
        return ast.copy_location(ast.Call(func=ast.Name(id=VNAME, ctx=ast.Load()),
                                          args=[ast.List(elts=node.elts, ctx=ast.Load())], keywords=[]), node)

    def visit_SetComp(self, node):
        self.generic_visit(node)
        self.count += 1
        lc = ast.ListComp(elt=node.elt, generators=node.generators)
        return ast.copy_location(ast.Call(func=ast.Name(id=VNAME, ctx=ast.Load()), args=[lc], keywords=[]), node)

    def visit_Name(self, node):
        if isinstance(node.ctx, ast.Load) and node.id in ("set", "frozenset"):
            self.count += 1
            return ast.copy_location(ast.Name(id=VNAME if node.id == "set" else FNAME, ctx=ast.Load()), node)
        return node


REWRITTEN = {}


class _Loader(importlib.abc.Loader):
    def __init__(self, path):
        self.path = path

    def create_module(self, spec):
        return None

    def exec_module(self, module):
        with open(self.path, encoding="utf8") as f:
            src = f.read()
        if "type(" in src and (" is set" in src or " is frozenset" in src):
            raise RuntimeError(f"harness error: {self.path} tests the exact type of a set; the controlled-set model would be wrong")
        tree = ast.parse(src, filename=self.path)
        rw = _Rewrite()
        tree = rw.visit(tree)
        ast.fix_missing_locations(tree)
        REWRITTEN[self.path] = rw.count
        module.__dict__[VNAME] = VSet
        module.__dict__[FNAME] = VFrozenSet
        code = compile(tree, self.path, "exec")
        exec(code, module.__dict__)


class _Finder(importlib.abc.MetaPathFinder):
    def __init__(self, repo):
        self.root = os.path.join(repo, "json_to_models")

    def find_spec(self, fullname, path, target=None):
        if fullname != "json_to_models" and not fullname.startswith("json_to_models."):
            return None
        rel = fullname.split(".")[1:]
        base = os.path.join(self.root, *rel)
        if os.path.isdir(base) and os.path.exists(os.path.join(base, "__init__.py")):
            return importlib.util.spec_from_file_location(fullname, os.path.join(base, "__init__.py"), loader=_Loader(os.path.join(base, "__init__.py")),
                                                          submodule_search_locations=[base])
        if os.path.exists(base + ".py"):
            return importlib.util.spec_from_file_location(fullname, base + ".py", loader=_Loader(base + ".py"))
        return None


def install(repo):
    if any(isinstance(f, _Finder) for f in sys.meta_path):
        return
    if "json_to_models" in sys.modules:
        raise RuntimeError("harness error: json_to_models imported before the set-order hook was installed")
    sys.meta_path.insert(0, _Finder(repo))
