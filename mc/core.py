"""Shared exploration core: parallel case execution, aggregation, known-findings matching,
violation confirmation (re-execution), replay artefacts and evidence files."""
import hashlib
import json
import multiprocessing as mp
import os
import sys
import time
import traceback

VERIF = os.path.dirname(os.path.dirname(os.path.abspath(__file__)))
NPROC = int(os.environ.get("VERIF_NPROC", "16"))
KNOWN_FILE = os.path.join(VERIF, "known_findings.json")


class HarnessError(Exception):
    pass


def jdump(x):
    return json.dumps(x, sort_keys=True, ensure_ascii=True, default=repr)


def digest(x):
    return hashlib.sha1((x if isinstance(x, str) else jdump(x)).encode("utf8", "surrogatepass")).hexdigest()[:16]


def viol(clause, site, shape, detail, **extra):
    """A violation record. clause: oracle clause id; site: failing call site / type kind;
    shape: set of alphabet symbol names occupying the offending position."""
    d = {"clause": clause, "site": site, "shape": sorted(set(shape)), "detail": str(detail)[:600].replace("\n", " | ")}
    d.update(extra)
    return d


def exc_site(e, prefix="json_to_models"):
    """module:function of the innermost frame inside the library (or the third-party error type)."""
    tb = traceback.extract_tb(e.__traceback__)
    site = None
    for fr in tb:
        fn = fr.filename.replace("\\", "/")
        if "/json_to_models/" in fn:
            mod = fn.split("/json_to_models/", 1)[1][:-3].replace("/", ".")
            site = f"{mod}:{fr.name}"
    if site is None:
        site = f"{type(e).__module__}.{type(e).__name__}"
    return f"{site}:{type(e).__name__}"


# ----------------------------------------------------------------------------------------------
# known findings
# ----------------------------------------------------------------------------------------------

def load_known(prop):
    if not os.path.exists(KNOWN_FILE):
        return []
    with open(KNOWN_FILE) as f:
        data = json.load(f)
    return [e for e in data.get("findings", []) if e.get("property") == prop and e.get("status") == "known"]


def covers(entry, v):
    return (entry["clause"] == v["clause"] and entry["site"] == v["site"]
            and set(entry.get("shape", [])) <= set(v["shape"]))


# ----------------------------------------------------------------------------------------------
# parallel map
# ----------------------------------------------------------------------------------------------

_WORK_FN = None


def _call(case):
    try:
        return case, _WORK_FN(case), None
    except BaseException as e:  # harness error inside the worker
        return case, None, "".join(traceback.format_exception(type(e), e, e.__traceback__))


def _call_chunk(chunk):
    return [_call(c) for c in chunk]


def _chunks(cases, n):
    import itertools
    it = iter(cases)
    while True:
        chunk = list(itertools.islice(it, n))
        if not chunk:
            return
        yield chunk


def _replay_in_child(fn, case, timeout):
    pool = mp.get_context("fork").Pool(1)
    try:
        return pool.apply_async(fn, (case,)).get(timeout)
    except mp.TimeoutError:
        return None
    finally:
        pool.terminate()
        pool.join()


def pmap(fn, cases, chunksize=64, nproc=None, budget_s=None):
    """Yield (case, result) for every case; fork-based pool so the parent's imported library (the
    working tree) is what the workers run.  Order of results is not significant to callers.
    Returns early (generator ends) when budget_s is exceeded; caller sees .capped on the generator."""
    global _WORK_FN
    nproc = nproc or NPROC
    _WORK_FN = fn
    t0 = time.time()
    if nproc <= 1:
        for c in cases:
            case, res, err = _call(c)
            if err:
                raise HarnessError(err)
            yield case, res
            if budget_s and time.time() - t0 > budget_s:
                pmap.capped = True
                return
        return
    ctx = mp.get_context("fork")
    pool = ctx.Pool(nproc, maxtasksperchild=None)
    try:
        it = pool.imap_unordered(_call_chunk, _chunks(cases, chunksize))   # chunksize 1 here: an iterator with next(timeout)
        pending = []
        while True:
            try:
                if not pending:
                    pending = list(it.next(timeout=STALL_S))
                case, res, err = pending.pop(0)
            except StopIteration:
                break
            except mp.TimeoutError:
                # no worker has delivered anything for STALL_S seconds.  If violations are already in hand the exploration
                # stops here and reports them (a change whose output grows from rendering to rendering makes later cases in
                # the same long-lived worker run for hours); with nothing in hand it keeps waiting and check.py's wall-clock
                # watchdog decides, so a slow machine can never turn a stall into an alarm or into a silent pass.
                run = CURRENT_RUN
                if run is not None and run.raw_violations:
                    pmap.capped = True
                    run.stalled = True
                    run.caps.append(f"workers delivered nothing for {STALL_S} s after {len(run.raw_violations)} violation(s) were "
                                    f"observed: exploration stopped early, the violations in hand are reported")
                    return
                continue
            if err:
                raise HarnessError(err)
            yield case, res
            if budget_s and time.time() - t0 > budget_s:
                pmap.capped = True
                return
    finally:
        pool.terminate()
        pool.join()


pmap.capped = False
STALL_S = int(os.environ.get("VERIF_STALL_S", "120"))
CURRENT_RUN = None


# ----------------------------------------------------------------------------------------------
# run context: aggregation + reporting
# ----------------------------------------------------------------------------------------------

class Run:
    def __init__(self, prop, tier, seed, level="model_checking"):
        global CURRENT_RUN
        CURRENT_RUN = self
        self.prop, self.tier, self.seed, self.level = prop, tier, seed, level
        self.t0 = time.time()
        self.states = set()
        self.transitions = 0
        self.executions = 0
        self.evaluations = 0
        self.nontrivial = set()
        self.samples = []
        self.outcomes = {}
        self.caps = []
        self.bounds = {}
        self.extra = {}
        self.assumptions = []
        self.rule = ""
        self.exhaustive = True
        self.raw_violations = []   # (case, violation)
        self.known_hits = {}
        self.new = []
        self._sample_every = 997 + (seed % 13)
        self._n_seen = 0

    # -- accumulation -------------------------------------------------------------------------
    def add(self, case, res):
        """res: dict(obs=..., viol=[...], nontrivial=key|None, execs=int, trans=int, outcome=str)"""
        self._n_seen += 1
        self.evaluations += 1
        self.executions += res.get("execs", 1)
        self.transitions += res.get("trans", 1)
        for o in res.get("obs", ()):
            self.states.add(o)
        nt = res.get("nontrivial")
        if nt is not None:
            if isinstance(nt, (list, tuple, set)):
                self.nontrivial.update(nt)
            else:
                self.nontrivial.add(nt)
        oc = res.get("outcome")
        if oc is not None:
            for o in (oc if isinstance(oc, (list, tuple)) else (oc,)):
                self.outcomes[o] = self.outcomes.get(o, 0) + 1
        if len(self.samples) < 6 and (self._n_seen % self._sample_every == 1 or self._n_seen in (2, 3 + self.seed % 5)):
            self.samples.append({"case": case, "observed": res.get("show")})
        for v in res.get("viol", ()):
            self.raw_violations.append((case, v))

    def count(self, key, n=1):
        self.extra[key] = self.extra.get(key, 0) + n

    # -- finishing ------------------------------------------------------------------------------
    def triage(self, replay_fn=None):
        """Match raw violations against known findings; confirm new ones by re-execution."""
        known = load_known(self.prop)
        groups = {}
        for case, v in self.raw_violations:
            hit = next((k for k in known if covers(k, v)), None)
            if hit is not None:
                kid = hit.get("id") or jdump([hit["clause"], hit["site"], hit.get("shape")])
                d = self.known_hits.setdefault(kid, {"entry": hit, "count": 0, "example": case})
                d["count"] += 1
                continue
            sig = (v["clause"], v["site"], tuple(v["shape"]))
            g = groups.setdefault(sig, {"case": case, "v": v, "count": 0})
            g["count"] += 1
            # keep the simplest case per signature (shortest JSON)
            if len(jdump(case)) < len(jdump(g["case"])):
                g["case"], g["v"] = case, v
        # subsumption among new violations (same rule as for known findings): a signature whose
        # shape is a superset of an already kept one with equal clause and site is the same defect
        kept = []
        for sig, g in sorted(groups.items(), key=lambda kv: (len(kv[0][2]), kv[0])):
            parent = next((k for k in kept if k[0][0] == sig[0] and k[0][1] == sig[1] and set(k[0][2]) <= set(sig[2])), None)
            if parent is not None:
                parent[1]["count"] += g["count"]
                continue
            kept.append((sig, g))
        for sig, g in kept:
            if replay_fn is not None:
                reproduced = False
                for _ in range(3):
                    if getattr(self, "stalled", False):
                        # the workers stopped delivering: whatever made them slow would compound in this process too, from
                        # replay to replay - each replay gets a fresh forked child and a time limit instead
                        again = _replay_in_child(replay_fn, g["case"], 2 * STALL_S)
                        if again is None:
                            g["v"] = dict(g["v"], detail=g["v"].get("detail", "") + f" [replay in a fresh process did not finish within {2 * STALL_S} s]")
                            break
                    else:
                        again = replay_fn(g["case"])
                    sigs2 = {(x["clause"], x["site"], tuple(x["shape"])) for x in again.get("viol", ())}
                    if sig in sigs2:
                        reproduced = True
                        break
                if not reproduced:
                    # The violation was observed on the real code in a worker process that had executed other cases before, and the
                    # same case gives a different result in this process: the library's result depends on what the process did
                    # earlier (state that survives a call). The observation stands; it is reported as such, with the case that showed it.
                    g["v"] = dict(g["v"], detail=g["v"].get("detail", "") + " [observed in a worker process; the replay in another process "
                                  "did not show it again: the result depends on what the process did before]")
                    g["unreproduced"] = True
                    self.extra["violations_not_reproduced_by_replay"] = self.extra.get("violations_not_reproduced_by_replay", 0) + 1
            self.new.append(g)

    def write_replays(self):
        out = []
        d = os.path.join(os.environ.get("VERIF_REPLAY_DIR") or os.path.join(VERIF, "replays"), self.prop)
        os.makedirs(d, exist_ok=True)
        for g in self.new:
            art = {"property": self.prop, "case": g["case"], "violation": g["v"], "count_in_run": g["count"],
                   "tier": self.tier}
            path = os.path.join(d, digest([g["v"]["clause"], g["v"]["site"], g["v"]["shape"]]) + ".json")
            with open(path, "w") as f:
                json.dump(art, f, indent=1, sort_keys=True, default=repr)
            out.append(path)
        return out

    def finish(self, replay_fn=None, max_report=40):
        self.triage(replay_fn)
        paths = self.write_replays()
        cov = {
            "states": len(self.states),
            "transitions": self.transitions,
            "traces_validated_against_impl": self.executions,
            "evaluations": self.evaluations,
            "distinct_nontrivial": len(self.nontrivial),
            "rule": self.rule,
            "samples": self.samples[:6] or [{"note": "no sample captured"}],
            "exhaustive": bool(self.exhaustive and not self.caps),
            "bounds": self.bounds,
            "caps_hit": self.caps,
            "outcomes": dict(sorted(self.outcomes.items(), key=lambda kv: -kv[1])[:40]),
            "known_findings_hit": {k: {"count": d["count"], "what": d["entry"].get("what")}
                                   for k, d in self.known_hits.items()},
        }
        cov.update(self.extra)
        ev = {
            "property_id": self.prop, "tier": self.tier, "seed": self.seed, "level": self.level,
            "coverage": cov, "assumptions": self.assumptions,
            "wall_s": round(time.time() - self.t0, 2), "violations": len(self.new),
        }
        evdir = os.environ.get("VERIF_EVIDENCE_DIR") or os.path.join(VERIF, "evidence")
        os.makedirs(evdir, exist_ok=True)
        with open(os.path.join(evdir, f"{self.prop}.json"), "w") as f:
            json.dump(ev, f, indent=1, sort_keys=True, default=repr)
        for kid, d in sorted(self.known_hits.items()):
            print(f"KNOWN-FINDING: property={self.prop} {d['entry'].get('what')} [{d['count']} cases, e.g. {jdump(d['example'])[:160]}]")
        for g, p in list(zip(self.new, paths))[:max_report]:
            print(f"VIOLATION property={self.prop} replay={p}")
            print(f"  clause={g['v']['clause']} site={g['v']['site']} shape={g['v']['shape']} cases={g['count']}")
            print(f"  detail: {g['v']['detail'][:300]}")
        if len(self.new) > max_report:
            print(f"  ... {len(self.new) - max_report} more violation signatures (see replays/{self.prop}/)")
        print(f"[{self.prop}] tier={self.tier} states={len(self.states)} transitions={self.transitions} "
              f"executions={self.executions} nontrivial={len(self.nontrivial)} exhaustive={cov['exhaustive']} "
              f"known={sum(d['count'] for d in self.known_hits.values())} new={len(self.new)} wall={ev['wall_s']}s")
        return 1 if self.new else 0
