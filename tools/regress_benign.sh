#!/bin/bash
# every property-preserving patch under benign/ (optionally only ids starting with $1) against ALL quick checks: the total number of alarms must be 0
cd "$(dirname "$0")/.."
tot=0
for d in benign/${1:-}*/; do
  echo "== $(basename $d)"
  out=$(tools/try_benign.sh "$d" 2>&1 | grep -v silent)
  echo "$out" | cut -c1-400
  n=$(echo "$out" | grep -c "ALARM ON A BENIGN")
  tot=$((tot+n))
done
echo "total_alarms=$tot"
exit $tot
