#!/bin/bash
# usage: tools/try_seed.sh <seed dir with patch.diff [demo.py]> <PROP> [tier] [--full]
# Applies the patch in a scratch worktree of /repo HEAD (outside /repo and /verif), optionally runs the
# repository test suite and the demo (with/without), then runs the check against that worktree
# (VERIF_REPO) and reports whether a VIOLATION line was printed. Removes the worktree afterwards.
set -u
HERE=$(cd "$(dirname "$0")/.." && pwd)
SEED=$(readlink -f "$1"); PROP=$2; TIER=${3:-quick}; FULL=${4:-}
WT=/tmp/try_$$_$(basename "$SEED")
git -C /repo worktree add -q --detach "$WT" HEAD || exit 2
cleanup() { git -C /repo worktree remove --force "$WT" 2>/dev/null; rm -rf "$WT"; }
trap cleanup EXIT
if [ -f "$SEED/demo.py" ] && [ -n "$FULL" ]; then
  (cd "$WT" && PYTHONPATH="$WT" timeout 300 /venv/bin/python "$SEED/demo.py" >/dev/null 2>&1); echo "demo without patch: exit $?"
fi
git -C "$WT" apply "$SEED/patch.diff" || { echo "PATCH DOES NOT APPLY"; exit 2; }
if [ -n "$FULL" ]; then
  (cd "$WT" && PYTHONPATH="$WT" /venv/bin/python -m pytest -q -n 6 -p no:cacheprovider 2>&1 | tail -1)
  if [ -f "$SEED/demo.py" ]; then
    (cd "$WT" && PYTHONPATH="$WT" timeout 300 /venv/bin/python "$SEED/demo.py" >/dev/null 2>&1); echo "demo with patch: exit $?"
  fi
fi
cd "$HERE"
OUT=$(VERIF_REPO="$WT" VERIF_EVIDENCE_DIR=/tmp/try_ev_$$ /venv/bin/python check.py "$PROP" --tier "$TIER" 2>&1); RC=$?
echo "$OUT" | grep -E "^VIOLATION|clause=|^\[|HARNESS" | head -${SHOW:-8} | cut -c1-260
echo "check $PROP ($TIER) exit=$RC  => $( [ $RC -eq 1 ] && echo DETECTED || echo MISSED )"
rm -rf /tmp/try_ev_$$
