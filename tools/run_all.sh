#!/bin/bash
# usage: tools/run_all.sh [quick|thorough]   - runs every registered check, prints one line each
TIER=${1:-quick}
cd "$(dirname "$0")/.."
rc_all=0
for p in $(python3 -c "import json;print(' '.join(c['property_id'] for c in json.load(open('MANIFEST.json'))['checks']))"); do
  s=$(date +%s); out=$(/venv/bin/python check.py "$p" --tier "$TIER" 2>&1); rc=$?; e=$(date +%s)
  [ $rc -ne 0 ] && rc_all=1
  echo "$p rc=$rc $((e-s))s $(echo "$out" | grep -c '^KNOWN-FINDING') known-finding lines; $(echo "$out" | tail -1 | cut -c1-140)"
  echo "$out" | grep '^VIOLATION'
done
exit $rc_all
