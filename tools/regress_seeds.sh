#!/bin/bash
# Re-runs every kept seed against the quick check of its property (in scratch worktrees); prints one line per seed.
cd "$(dirname "$0")/.."
miss=0
for d in seeded/*/; do
  id=$(basename "$d"); prop=${id%%-*}
  res=$(tools/try_seed.sh "$d" "$prop" quick 2>&1 | tail -1)
  echo "$id $res"
  case "$res" in *DETECTED*) ;; *) miss=$((miss+1));; esac
done
echo "missed=$miss"
exit $miss
