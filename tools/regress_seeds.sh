#!/bin/bash
# Re-runs every kept seed against the quick check(s) recorded in its meta.json (confirmed_by_us.detected_by; the first entry is the
# check that must report it) in scratch worktrees; prints one line per seed.  usage: tools/regress_seeds.sh [seed id prefix]
cd "$(dirname "$0")/.."
miss=0
for d in seeded/${1:-}*/; do
  id=$(basename "$d")
  prop=$(python3 -c "import json,sys; m=json.load(open('$d/meta.json')); print(m['confirmed_by_us']['detected_by'][0].split(':')[0])" 2>/dev/null)
  [ -z "$prop" ] && prop=${id%%-*}
  res=$(tools/try_seed.sh "$d" "$prop" quick 2>&1 | tail -1)
  echo "$id [$prop] $res"
  case "$res" in *DETECTED*) ;; *) miss=$((miss+1));; esac
done
echo "missed=$miss"
exit $miss
