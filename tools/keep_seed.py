#!/usr/bin/env python3
"""keep_seed.py <src dir> <seed id> <property> <detected_by: 'C01:quick,...'> [note]
Copies patch.diff / demo.py / meta.json into /verif/seeded/<seed id>/ and records what we ran."""
import json, os, shutil, sys
src, sid, prop, det = sys.argv[1:5]
note = sys.argv[5] if len(sys.argv) > 5 else ""
dst = os.path.join(os.path.dirname(os.path.dirname(os.path.abspath(__file__))), "seeded", sid)
os.makedirs(dst, exist_ok=True)
for f in ("patch.diff", "demo.py"):
    if os.path.exists(os.path.join(src, f)):
        shutil.copy(os.path.join(src, f), os.path.join(dst, f))
meta = {}
mp = os.path.join(src, "meta.json")
if os.path.exists(mp):
    try:
        meta = json.load(open(mp))
    except Exception:
        meta = {"raw": open(mp).read()}
out = {
    "id": sid, "property": prop,
    "breaks": meta.get("summary", ""),
    "needs_to_manifest": meta.get("needs_to_manifest", ""),
    "files_touched": meta.get("files_touched", []),
    "author": "independent sub-agent given only the property text and a scratch worktree",
    "confirmed_by_us": {
        "how": "tools/try_seed.sh <dir> <PROP> quick full: scratch worktree of /repo HEAD, demo without patch (exit 0), patch applied, "
               "repository suite (428 passed, 7 xfailed), demo with patch (exit 1), check run with VERIF_REPO=<worktree>",
        "detected_by": det.split(","),
        "note": note,
    },
    "agent_meta": meta,
}
json.dump(out, open(os.path.join(dst, "meta.json"), "w"), indent=1)
print("kept", dst)
