#!/usr/bin/env python3
"""Regenerates MANIFEST.json from the table below (keeps the file valid and consistent)."""
import json
import os

HERE = os.path.dirname(os.path.dirname(os.path.abspath(__file__)))
PY = "/venv/bin/python"

CHECKS = {
    "C01": dict(
        engine="E1-history-tree",
        technique="bounded exhaustive enumeration of sample histories x frameworks x layouts x option axes on the real pipeline; reference admits() on the IR, structural acceptance + pydantic parse_obj on the exec'd module",
        text="Every sample history within the bound is generated for real, the emitted module is executed, and each sample is checked against the IR (after generate and after merge_models) and against the emitted classes; pydantic/sqlmodel output is judged by parse_obj itself. Exhaustive within alphabet/length bounds.",
        note="Trusted: mc/ir.py admits table, CPython exec, pydantic.v1 as judge; sqlmodel via a stub package; alphabets of DESIGN 2.1, <=3 samples (4 over atoms), nesting depth <=3.",
        ref="4/C01"),
    "C02": dict(
        engine="E1-history-tree",
        technique="bounded exhaustive enumeration of sample histories on the real pipeline; parallel walk of the final model graph with the samples, witness required for every Optional/union member/element type/Literal/Any",
        text="For every history within the bound the final registry graph is walked together with the samples; each widening in the graph must be justified by a routed value. Exhaustive within the bound.",
        note="Trusted: routing walk of mc/ir.py (lenient: a value admitted by two union members witnesses both); values C01 finds unroutable are skipped.",
        ref="4/C02"),
    "C05": dict(
        engine="E2-graph-enumerator",
        technique="exhaustive enumeration of all labelled similarity graphs on <=5/6 models (table-driven comparator) x 3 reference shapes, and all families of <=3/4 key sets x shipped comparators, through the real merge_models(); union-find reference partition",
        text="Every similarity graph up to the bound is realised as a registry and merged by the real code; resulting models, fields, returned replacement list and every pointer (graph and bookkeeping) are compared with the connected components computed independently.",
        note="Trusted: union-find + relation written in props/c05.py; closure bugs needing diameter >5 and comparators other than the shipped three are outside the bound.",
        ref="4/C05"),
    "C07": dict(
        engine="E1-history-tree",
        technique="bounded exhaustive enumeration of all sequences per support set (all permutations and duplication patterns up to length 3/4) on the real pipeline; canonical-graph equality",
        text="All sequences of length <=3 (quick) / <=4 (thorough) over the object alphabet are grouped by their set of distinct samples; every group must produce one canonical model graph. No sampling of permutations.",
        note="Trusted: canonical form in mc/ir.py (drops field order, union order, names, index strings only).",
        ref="4/C07"),
    "C08": dict(
        engine="E1-history-tree",
        technique="bounded exhaustive enumeration of value sequences through the real generate()/merge_models(); normal-form predicates + second-pass idempotence on every reached type",
        text="Every sequence/multiset of JSON values within the bound is run through the real simplifier; each reached type is checked against the normal-form rules and re-simplified in place. Exhaustive within the alphabet and length bound, no sampling.",
        note="Trusted: the reference normal-form predicates in mc/ir.py; operands limited to the 46-value alphabet, length <=3 (4 over atoms).",
        ref="4/C08"),
    "C09": dict(
        engine="E1-history-tree",
        technique="exhaustive enumeration of a string grammar (5.1k strings) x 179 registry configurations through the real _detect_type, all argument subsets through resolve/generate, all names through remove_by_name, round trip for every accepted pair",
        text="Every grammar string is classified by the real detector under every registry subset/order and compared with an accept matrix obtained from the parsers themselves; resolve is checked against the same matrix; round trips are executed for every accepted (string, type).",
        note="Trusted: each type's own parser is the specification of 'accepts'; strings outside the grammar and user-defined types are out of scope.",
        ref="4/C09"),
}

PENDING = {
}

ALL = ["C%02d" % i for i in range(1, 20)]


def main():
    checks = []
    for pid in ALL:
        c = CHECKS.get(pid)
        if not c:
            continue
        level = c.get("level", "model_checking")
        checks.append({
            "property_id": pid,
            "quick_cmd": f"{PY} check.py {pid} --tier quick",
            "thorough_cmd": f"{PY} check.py {pid} --tier thorough",
            "evidence_file": f"/verif/evidence/{pid}.json",
            "replay_cmd_template": f"{PY} check.py --replay {{path}}",
            "engine": c["engine"],
            "level_claimed": {"category": level, "text": c["text"], "design_ref": "DESIGN.md section " + c["ref"]},
            "level_note": c["note"],
            "technique": c["technique"],
        })
    na = [{"property_id": pid, "reason": PENDING.get(pid, "check not built yet in this round (planned in DESIGN.md section 4); nothing is claimed for it")}
          for pid in ALL if pid not in CHECKS]
    man = {
        "version": 1,
        "setup_cmd": f"{PY} tools/selftest.py",
        "hooks": {
            "guard": "JSON2MODELS_VERIF",
            "enable": "no source hooks: instrumentation is external (AST import hook, sys.settrace, fork); checks export JSON2MODELS_VERIF=1 for form only",
            "baseline_off_cmd": "cd /repo && /venv/bin/python -m pytest -ra -q -p no:cacheprovider --timeout=900 --continue-on-collection-errors",
            "source_commits": [],
            "add_only": True,
        },
        "engines": [
            {"name": "E1-history-tree", "path": "mc/core.py", "serves_properties": ["C01", "C02", "C07", "C08", "C09", "C10", "C13", "C18"],
             "kind_free_text": "stateless bounded-exhaustive explorer of operation/sample sequences on the real implementation, 16 forked workers"},
            {"name": "E2-graph-enumerator", "path": "mc/core.py", "serves_properties": ["C03", "C04", "C05", "C11", "C12"],
             "kind_free_text": "exhaustive enumeration of graph-shaped inputs / similarity graphs / key strings crossed with frameworks, layouts and options, executed on the real implementation"},
        ],
        "checks": checks,
        "not_applicable": na,
        "notes": "All checks run /repo's working tree directly (VERIF_REPO overrides the path for scratch worktrees). known_findings.json is read-only at run time.",
    }
    with open(os.path.join(HERE, "MANIFEST.json"), "w") as f:
        json.dump(man, f, indent=1)
    print("MANIFEST.json written:", len(checks), "checks,", len(na), "not claimed")


if __name__ == "__main__":
    main()
