#!/venv/bin/python
"""setup_cmd: nothing to compile; verifies the tree under test imports, the sqlmodel stub loads, and
the evidence schema validator is available."""
import os
import subprocess
import sys

HERE = os.path.dirname(os.path.dirname(os.path.abspath(__file__)))
sys.path.insert(0, HERE)
from mc import pipeline  # noqa

b = pipeline.build([{"a": 1}, {"a": "x", "b": [{"c": None}]}])
for fw in pipeline.FRAMEWORKS:
    txt = pipeline.render(b.reg, fw, "flat")
    compile(txt, "<selftest>", "exec")
import sqlmodel  # noqa  (stub)
assert sqlmodel.__file__.startswith(HERE), sqlmodel.__file__
for d in ("evidence", "replays"):
    os.makedirs(os.path.join(HERE, d), exist_ok=True)
print("selftest ok: library from", pipeline.REPO)
