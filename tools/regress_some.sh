#!/bin/bash
# tools/regress_some.sh C03 C12 ... : seed regression for the given id prefixes
cd "$(dirname "$0")/.."
rc=0
for p in "$@"; do tools/regress_seeds.sh "$p" || rc=1; done
exit $rc
