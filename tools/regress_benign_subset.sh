#!/bin/bash
# every benign patch against the checks named in $CHECKS (default: those changed most recently), plus C15 for the patches in $WITH_C15
cd "$(dirname "$0")/.."
CHECKS=${CHECKS:-"C03 C04 C05 C06 C07 C09 C11 C12 C14 C16 C17"}
WITH_C15=${WITH_C15:-"B05 B08 B17 B23"}
tot=0
for d in benign/*/; do
  id=$(basename $d); list="$CHECKS"
  case " $WITH_C15 " in *" $id "*) list="$list C15";; esac
  echo "== $id"
  out=$(tools/try_benign.sh "$d" $list 2>&1 | grep -v silent)
  echo "$out" | cut -c1-400
  n=$(echo "$out" | grep -c "ALARM ON A BENIGN")
  tot=$((tot+n))
done
echo "total_alarms=$tot"
exit $tot
