#!/bin/bash
# usage: tools/try_benign.sh <dir with patch.diff> [props...]  - a property-preserving change: every check must stay silent (exit 0)
HERE=$(cd "$(dirname "$0")/.." && pwd)
SEED=$(readlink -f "$1"); shift
PROPS=${@:-$(python3 -c "import json;print(' '.join(c['property_id'] for c in json.load(open('$HERE/MANIFEST.json'))['checks']))")}
WT=/tmp/benign_$$_$(basename "$SEED")
git -C /repo worktree add -q --detach "$WT" HEAD || exit 2
trap 'git -C /repo worktree remove --force "$WT" 2>/dev/null; rm -rf "$WT" /tmp/benign_ev_$$' EXIT
git -C "$WT" apply "$SEED/patch.diff" || { echo "PATCH DOES NOT APPLY"; exit 2; }
(cd "$WT" && PYTHONPATH="$WT" /venv/bin/python -m pytest -q -n 6 -p no:cacheprovider 2>&1 | tail -1)
cd "$HERE"
bad=0
for p in $PROPS; do
  OUT=$(VERIF_REPO="$WT" VERIF_REPLAY_DIR=/tmp/benign_ev_$$/r VERIF_EVIDENCE_DIR=/tmp/benign_ev_$$ /venv/bin/python check.py "$p" --tier quick 2>&1); RC=$?
  if [ $RC -ne 0 ]; then bad=$((bad+1)); echo "$p exit=$RC  <== ALARM ON A BENIGN CHANGE"; echo "$OUT" | grep -E "clause=|detail|HARNESS|Error" | head -6 | cut -c1-300; else echo "$p silent"; fi
done
echo "alarms=$bad"
